#!/bin/bash
# ./check.sh <Cxx> <quick|thorough>            run a check (rebuilds the harness against /repo's working tree)
# ./check.sh <Cxx> replay <path>               re-run one recorded case verbosely
# ./check.sh build                             build only
set -u
export GOFLAGS=-mod=mod GOPROXY=off GOSUMDB=off GOTOOLCHAIN=local
export GOCACHE=${GOCACHE:-/root/.cache/go-build}
HERE="$(cd "$(dirname "$0")" && pwd)"
cd "$HERE/harness" || exit 2
RACE_PROPS=" C09 C12 C14 "

build() {
  mkdir -p bin
  # the ice sources under /repo are compiled into the binary on every invocation
  cp /repo/go.sum go.sum 2>/dev/null
  go build -tags verif -o bin/icecheck ./cmd/icecheck || { echo "BUILD-FAILED (plain)"; return 1; }
  if [ "${1:-}" = race ]; then
    go build -race -tags verif -o bin/icecheck-race ./cmd/icecheck || { echo "BUILD-FAILED (race)"; return 1; }
  fi
}

id="${1:-}"; what="${2:-quick}"
if [ "$id" = build ]; then build race; exit $?; fi
need=""
case "$RACE_PROPS" in *" $id "*) need=race;; esac
build $need || exit 2
if [ "$what" = replay ]; then
  exec ./bin/icecheck -prop "$id" -replay "$3"
fi
exec ./bin/icecheck -prop "$id" -tier "$what"
