#!/bin/bash
# ./check.sh <Cxx> <quick|thorough>            run a check (rebuilds the harness against /repo's working tree)
# ./check.sh <Cxx> replay <path>               re-run one recorded case verbosely
# ./check.sh build                             build only (plain + race)
#
# VERIF_SEED=<n> selects the seed. For validating the monitors against a scratch copy of the
# repository (mutants, seeded changes) set VERIF_REPO=<dir> (and VERIF_EVIDENCE_DIR, VERIF_BIN_DIR):
# the harness is then built with a temporary -modfile whose replace points at that copy.
set -u
export GOFLAGS=-mod=mod GOPROXY=off GOSUMDB=off GOTOOLCHAIN=local
HERE="$(cd "$(dirname "$0")" && pwd)"
cd "$HERE/harness" || exit 2
RACE_PROPS=" C09 C12 C14 "
BIN="${VERIF_BIN_DIR:-$HERE/harness/bin}"
MODFLAG=""
if [ -n "${VERIF_REPO:-}" ]; then
  MODDIR="$BIN/mod"; mkdir -p "$MODDIR"
  sed "s#=> /repo#=> $VERIF_REPO#" go.mod > "$MODDIR/go.mod"; cp go.sum "$MODDIR/go.sum"
  MODFLAG="-modfile=$MODDIR/go.mod"
fi

build() {
  mkdir -p "$BIN"
  # the ice sources under /repo (or $VERIF_REPO) are compiled into the binary on every invocation
  go build $MODFLAG -tags verif -o "$BIN/icecheck" ./cmd/icecheck || { echo "BUILD-FAILED (plain)"; return 1; }
  if [ "${1:-}" = race ]; then
    go build $MODFLAG -race -tags verif -o "$BIN/icecheck-race" ./cmd/icecheck || { echo "BUILD-FAILED (race)"; return 1; }
  fi
}

id="${1:-}"; what="${2:-quick}"
if [ "$id" = build ]; then build race; exit $?; fi
need=""
case "$RACE_PROPS" in *" $id "*) need=race;; esac
build $need || exit 2
if [ "$what" = replay ]; then
  exec "$BIN/icecheck" -prop "$id" -replay "$3"
fi
exec "$BIN/icecheck" -prop "$id" -tier "$what"
