// mkgolden writes the C10 golden corpus. It MUST be built against the original
// pinned ice commit (see golden/REGENERATE.md): the ice package linked in here
// is the writer whose files the current reader has to keep reading.
package main

import (
	"fmt"
	"math/rand"
	"os"
	"path/filepath"

	"github.com/RoaringBitmap/roaring"

	"verif/harness/gen"
	"verif/harness/golden"
	"verif/harness/model"
)

func main() {
	dir := os.Args[1]
	os.MkdirAll(dir, 0o755)
	if len(os.Args) > 2 && os.Args[2] == "ext" {
		extension(dir)
		return
	}
	r := rand.New(rand.NewSource(20260927))
	n := 0
	emit := func(rc *golden.Recipe, b []byte) {
		rc.Name = fmt.Sprintf("g%03d-%s", n, rc.Shape)
		n++
		if err := os.WriteFile(filepath.Join(dir, rc.Name+".ice"), b, 0o644); err != nil {
			panic(err)
		}
		if err := golden.WriteGz(filepath.Join(dir, rc.Name+".recipe.json.gz"), rc); err != nil {
			panic(err)
		}
	}
	built := func(docs []*model.MDoc, mode uint32, shape string) {
		model.ToSegDocs(docs)
		s, err := gen.BuildSeg(docs, mode)
		if err != nil {
			fmt.Println("skip (pinned writer failed):", shape, firstLine(err))
			return
		}
		b, _, err := gen.Persist(s.S)
		if err != nil {
			fmt.Println("skip persist:", err)
			return
		}
		emit(&golden.Recipe{Kind: "built", Mode: mode, Docs: docs, Shape: shape}, b)
	}
	modes := []uint32{1, 2, 3, 5, 7, 64, 1024, 1025}
	// built, small and medium, every mode
	for i := 0; i < 56; i++ {
		sch := gen.GenSchema(r)
		sizes := []int{1, 2, 3, 5, 8, 12, 30, 60}
		nd := sizes[i%len(sizes)]
		built(gen.GenBatch(r, sch, nd, fmt.Sprintf("b%d", i), gen.DocOpts{Repeat: i%2 == 0}), modes[(i/len(sizes)+i)%len(modes)], "built-small")
	}
	// stored-block edges
	for i, nd := range []int{127, 128, 129, 130, 255, 256, 257, 300, 385} {
		sch := gen.GenSchema(r)
		built(gen.GenBatch(r, sch, nd, fmt.Sprintf("e%d", i), gen.DocOpts{Repeat: true}), []uint32{1025, 1024, 64, 7}[i%4], "built-block-edge")
	}
	built(nil, 1025, "built-empty")
	// jumbo: doc-value chunks (1024) and adaptive posting chunks (>1024 docs per term)
	for i, nd := range []int{1100, 2100, 2600, 3000} {
		docs, _ := gen.JumboBatch(r, nd, fmt.Sprintf("j%d", i), true)
		built(docs, []uint32{1025, 1024, 1025, 100}[i], "built-jumbo")
	}
	// merged
	merged := func(k int, sizes []int, shape string, dropPats []int, outMode uint32, sameSchema bool) {
		sch := gen.GenSchema(r)
		rc := &golden.Recipe{Kind: "merged", Mode: outMode, Shape: shape}
		var segs []*gen.Seg
		var drops []*roaring.Bitmap
		for i := 0; i < k; i++ {
			s2 := sch
			if !sameSchema {
				s2 = sch.Sub(r)
			}
			var docs []*model.MDoc
			if shape == "merged-jumbo" {
				docs, _ = gen.JumboBatch(r, sizes[i], fmt.Sprintf("m%d.%d", n, i), true)
			} else {
				docs = gen.GenBatch(r, s2, sizes[i], fmt.Sprintf("m%d.%d", n, i), gen.DocOpts{Repeat: i%2 == 0})
			}
			model.ToSegDocs(docs)
			mode := modes[r.Intn(len(modes))]
			if sizes[i] > 400 {
				mode = []uint32{1025, 1024, 64}[r.Intn(3)]
			}
			s, err := gen.BuildSeg(docs, mode)
			if err != nil {
				fmt.Println("skip (pinned writer failed):", shape, firstLine(err))
				return
			}
			segs = append(segs, s)
			d := gen.Drops(r, sizes[i], dropPats[i%len(dropPats)])
			drops = append(drops, d)
			rc.Inputs = append(rc.Inputs, golden.Input{Mode: mode, Docs: docs})
			if d == nil {
				rc.Drops = append(rc.Drops, nil)
			} else {
				rc.Drops = append(rc.Drops, append([]uint32{}, d.ToArray()...))
			}
		}
		b, _, _, err := gen.MergeBytes(segs, drops, outMode)
		if err != nil {
			fmt.Println("skip (pinned merge failed):", shape, firstLine(err))
			return
		}
		emit(rc, b)
	}
	for i := 0; i < 60; i++ {
		k := 1 + r.Intn(3)
		sizes := make([]int, k)
		for j := range sizes {
			sizes[j] = []int{1, 3, 6, 10, 20, 45}[r.Intn(6)]
		}
		merged(k, sizes, "merged-small", []int{0, 1, 2, 3, 5, 6}[i%6:], modes[i%len(modes)], i%3 == 0)
	}
	for i := 0; i < 8; i++ { // byte-copy stored path: same schema, nothing dropped
		merged(2, []int{130 + r.Intn(40), 20 + r.Intn(140)}, "merged-copy-path", []int{0, 1}, []uint32{1025, 1024, 5, 64}[i%4], true)
	}
	for i := 0; i < 8; i++ {
		merged(2, []int{129 + r.Intn(130), 1 + r.Intn(140)}, "merged-block-edge", []int{2, 6, 5}, []uint32{1025, 1024, 3, 64}[i%4], i%2 == 0)
	}
	for i := 0; i < 4; i++ {
		merged(2, []int{900 + r.Intn(500), 700 + r.Intn(500)}, "merged-jumbo", []int{[]int{0, 2, 5, 6}[i], 0}, []uint32{1025, 1024, 1025, 100}[i], true)
	}
	fmt.Println("wrote", n, "files to", dir)
}

// extension writes the second batch of golden files (shapes added after the seeding exercise):
// stored blocks above 1 MiB, wide schemas, exact boundary cardinalities, arbitrary fixed chunk sizes.
func extension(dir string) {
	r := rand.New(rand.NewSource(20260928))
	n := 200
	emit := func(rc *golden.Recipe, b []byte) {
		rc.Name = fmt.Sprintf("g%03d-%s", n, rc.Shape)
		n++
		if err := os.WriteFile(filepath.Join(dir, rc.Name+".ice"), b, 0o644); err != nil {
			panic(err)
		}
		if err := golden.WriteGz(filepath.Join(dir, rc.Name+".recipe.json.gz"), rc); err != nil {
			panic(err)
		}
	}
	built := func(docs []*model.MDoc, mode uint32, shape string) *gen.Seg {
		sanitizeForPinned(docs)
		model.ToSegDocs(docs)
		s, err := gen.BuildSeg(docs, mode)
		if err != nil {
			fmt.Println("skip (pinned writer failed):", shape, firstLine(err))
			return nil
		}
		b, _, err := gen.Persist(s.S)
		if err != nil {
			return nil
		}
		emit(&golden.Recipe{Kind: "built", Mode: mode, Docs: docs, Shape: shape}, b)
		return s
	}
	mergeOf := func(inputs [][]*model.MDoc, modes []uint32, drops []*roaring.Bitmap, outMode uint32, shape string) {
		rc := &golden.Recipe{Kind: "merged", Mode: outMode, Shape: shape}
		var segs []*gen.Seg
		for i, docs := range inputs {
			sanitizeForPinned(docs)
			model.ToSegDocs(docs)
			s, err := gen.BuildSeg(docs, modes[i])
			if err != nil {
				fmt.Println("skip (pinned writer failed):", shape, firstLine(err))
				return
			}
			segs = append(segs, s)
			rc.Inputs = append(rc.Inputs, golden.Input{Mode: modes[i], Docs: docs})
			if drops[i] == nil {
				rc.Drops = append(rc.Drops, nil)
			} else {
				rc.Drops = append(rc.Drops, append([]uint32{}, drops[i].ToArray()...))
			}
		}
		b, _, _, err := gen.MergeBytes(segs, drops, outMode)
		if err != nil {
			fmt.Println("skip (pinned merge failed):", shape, firstLine(err))
			return
		}
		emit(rc, b)
	}
	bigSchema := func() *gen.Schema {
		sch := gen.GenSchema(r)
		for i := range sch.Fields {
			sch.Fields[i].StoreP = 10
		}
		return sch
	}
	for i := 0; i < 3; i++ { // stored blocks above 1 MiB uncompressed
		built(gen.GenBatch(r, bigSchema(), 130+r.Intn(60), fmt.Sprintf("B%d", i), gen.DocOpts{BigStored: true}), []uint32{1025, 1024, 7}[i], "built-big-stored")
	}
	{
		sch := bigSchema()
		a := gen.GenBatch(r, sch, 140, "Ba", gen.DocOpts{BigStored: true})
		b := gen.GenBatch(r, sch, 60, "Bb", gen.DocOpts{BigStored: true})
		mergeOf([][]*model.MDoc{a, b}, []uint32{1025, 64}, []*roaring.Bitmap{nil, roaring.New()}, 1025, "merged-big-stored")
	}
	for i := 0; i < 3; i++ { // field ids above 127
		sch := gen.WideSchema(r, 150+r.Intn(150))
		built(gen.WideBatch(r, sch, 80+r.Intn(100), fmt.Sprintf("W%d", i)), []uint32{1025, 3, 64}[i], "built-wide")
	}
	{
		sch := gen.WideSchema(r, 200)
		a := gen.WideBatch(r, &gen.Schema{IDP: 9, Fields: sch.Fields[20:]}, 60, "Wa")
		b := gen.WideBatch(r, &gen.Schema{IDP: 9, Fields: sch.Fields[:170]}, 50, "Wb")
		mergeOf([][]*model.MDoc{a, b}, []uint32{1025, 5}, []*roaring.Bitmap{gen.Drops(r, 60, 2), nil}, 1025, "merged-wide")
	}
	for i, nd := range []int{2200, 4200} { // exact cardinalities 1023..4096
		docs, _ := gen.JumboBatch(r, nd, fmt.Sprintf("X%d", i), true)
		gen.AddExactTerms(r, docs, "exact", gen.ExactSpec(nd))
		built(docs, []uint32{1025, 1025}[i], "built-exact-cardinalities")
	}
	{ // merged terms of exactly 1024 / 2048 documents (no deletions)
		sizes := []int{900, 1300}
		ex := gen.SplitExact(r, sizes)
		var ins [][]*model.MDoc
		for i, sz := range sizes {
			docs, _ := gen.JumboBatch(r, sz, fmt.Sprintf("Y%d", i), true)
			gen.AddExactTerms(r, docs, "exact", ex[i])
			ins = append(ins, docs)
		}
		mergeOf(ins, []uint32{1025, 1024}, []*roaring.Bitmap{nil, nil}, 1025, "merged-exact-cardinalities")
	}
	for i := 0; i < 6; i++ { // arbitrary fixed chunk sizes, varint-boundary positions and frequencies
		sch := gen.GenSchema(r)
		nd := []int{9, 40, 120, 257, 300, 64}[i]
		built(gen.GenBatch(r, sch, nd, fmt.Sprintf("M%d", i), gen.DocOpts{}), uint32(1+r.Intn(1024)), "built-any-mode")
	}
	fmt.Println("extension wrote", n-200, "files to", dir)
}

// sanitizeForPinned avoids the one input shape on which the pinned WRITER is known to be wrong
// (a term occurring again in the same field of a document with locations naming another field):
// later occurrences get blank location field names, so the corpus is not thinned out by that defect.
func sanitizeForPinned(docs []*model.MDoc) {
	for _, d := range docs {
		seen := map[string]bool{}
		for _, f := range d.Fields {
			for _, t := range f.Terms {
				k := f.N + "\x00" + string(t.T)
				if seen[k] {
					for _, l := range t.L {
						l.F = ""
					}
				}
				seen[k] = true
			}
		}
	}
}

func firstLine(err error) string {
	s := err.Error()
	for i := range s {
		if s[i] == '\n' {
			return s[:i]
		}
	}
	return s
}
