// icecheck is the single check binary: parent mode (default) orchestrates
// child processes of itself; -child runs one shard; -replay re-runs one case.
package main

import (
	"flag"
	"fmt"
	"os"
	"strconv"

	"verif/harness/props"
	"verif/harness/runner"
)

func main() {
	var (
		prop    = flag.String("prop", "", "property id (C01…C19)")
		tier    = flag.String("tier", "quick", "quick | thorough")
		child   = flag.Bool("child", false, "child mode")
		phase   = flag.String("phase", "", "phase (child mode, or restrict parent to one phase)")
		seed    = flag.Int64("seed", -1, "seed (default: VERIF_SEED or 1)")
		shard   = flag.Int("shard", 0, "")
		nshards = flag.Int("nshards", 1, "")
		out     = flag.String("out", "", "child output directory")
		replay  = flag.String("replay", "", "replay file")
		worker  = flag.String("worker", "", "internal worker mode (e.g. c19)")
	)
	flag.Parse()
	if *worker != "" {
		os.Exit(props.Worker(*worker, flag.Args()))
	}
	p := props.Registry[*prop]
	if p == nil {
		fmt.Fprintf(os.Stderr, "unknown property %q\n", *prop)
		os.Exit(3)
	}
	if *seed < 0 {
		*seed = 1
		if s := os.Getenv("VERIF_SEED"); s != "" {
			if n, err := strconv.ParseInt(s, 10, 64); err == nil {
				*seed = n
			}
		}
	}
	if *tier != "quick" && *tier != "thorough" {
		fmt.Fprintf(os.Stderr, "unknown tier %q\n", *tier)
		os.Exit(3)
	}
	switch {
	case *replay != "":
		os.Exit(runner.Replay(p, *replay))
	case *child:
		os.Exit(runner.ChildMain(p, *phase, *tier, *seed, *shard, *nshards, *out))
	default:
		os.Exit(runner.ParentMain(p, *tier, *seed, *phase))
	}
}
