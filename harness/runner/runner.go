// Package runner is the orchestration shared by all property checks:
// case lists derived from VERIF_SEED, one child process per shard (so that a
// process-fatal event inside ice kills one shard only and is attributed to the
// case that was running), three-valued verdicts, evidence and replay files,
// and the known-findings filter.
package runner

import (
	"encoding/json"
	"fmt"
	"hash/fnv"
	"math/rand"
	"os"
	"path/filepath"
	"runtime/debug"
	"sort"
	"strings"
	"sync"
)

const VerifDir = "/verif"

type Violation struct {
	Property string `json:"property"`
	Phase    string `json:"phase"`
	Idx      int    `json:"case"`
	Seed     int64  `json:"seed"`
	Tier     string `json:"tier"`
	Sig      string `json:"sig"` // short stable identifier of what failed (used by the known-findings filter)
	Msg      string `json:"msg"`
	Detail   string `json:"detail,omitempty"`
}

type Phase struct {
	Name  string
	Race  bool                   // run with the -race build of the harness
	Cases func(tier string) int  // number of cases: fixed by tier, never a time budget
	Run   func(c *Ctx)           // runs case c.Idx
	Procs func(tier string) int  // max parallel child processes (default 16)
	Env   func(c *Ctx) []string  // unused by most
	Post  func(p *ParentPhase)   // optional parent-side post-processing (race logs …)
	Quiet bool
}

type Property struct {
	ID          string
	Level       string // exploration | fault_enumeration
	Rule        string
	Assumptions []string
	Phases      []Phase
	// Floors are minimal counter values a run must reach to be conclusive.
	Floors func(tier string) map[string]int64
	// Exhaustive is reported in the evidence when the property enumerated a finite space completely.
	Exhaustive func(tier string) bool
}

// Ctx is handed to Phase.Run for one case.
type Ctx struct {
	Prop    *Property
	Phase   string
	Tier    string
	Seed    int64
	Idx     int
	R       *rand.Rand
	Verbose bool
	TmpDir  string

	res *Result
	mu  *sync.Mutex
}

// Result is what one child reports back.
type Result struct {
	Evaluations int64             `json:"evaluations"`
	Counters    map[string]int64  `json:"counters"`
	Maxes       map[string]int64  `json:"maxes"`
	Distinct    map[uint64]int64  `json:"distinct"`
	Samples     []json.RawMessage `json:"samples"`
	Violations  []Violation       `json:"violations"`
	Notes       []string          `json:"notes"` // reasons for inconclusiveness
	Done        bool              `json:"done"`
}

func NewResult() *Result {
	return &Result{Counters: map[string]int64{}, Maxes: map[string]int64{}, Distinct: map[uint64]int64{}}
}

func CaseRand(seed int64, prop, phase string, idx int) *rand.Rand {
	h := fnv.New64a()
	fmt.Fprintf(h, "%d/%s/%s/%d", seed, prop, phase, idx)
	return rand.New(rand.NewSource(int64(h.Sum64() & 0x7fffffffffffffff)))
}

func Hash(parts ...interface{}) uint64 {
	h := fnv.New64a()
	for _, p := range parts {
		switch v := p.(type) {
		case []byte:
			h.Write(v)
		case string:
			h.Write([]byte(v))
		default:
			fmt.Fprintf(h, "%v", v)
		}
		h.Write([]byte{0})
	}
	return h.Sum64()
}

// Eval counts evaluations (oracle decisions taken).
func (c *Ctx) Eval(n int64) {
	c.mu.Lock()
	c.res.Evaluations += n
	c.mu.Unlock()
}

func (c *Ctx) Inc(key string, n int64) {
	c.mu.Lock()
	c.res.Counters[key] += n
	c.mu.Unlock()
}

func (c *Ctx) Max(key string, v int64) {
	c.mu.Lock()
	if v > c.res.Maxes[key] {
		c.res.Maxes[key] = v
	}
	c.mu.Unlock()
}

// Nontrivial registers a non-trivial case (by the property's stated rule)
// under the hash of its canonical descriptor; weight is the number of distinct
// non-trivial sub-cases it contains (1 for a plain case).
func (c *Ctx) Nontrivial(hash uint64, weight int64) {
	c.mu.Lock()
	if weight > c.res.Distinct[hash] {
		c.res.Distinct[hash] = weight
	}
	c.mu.Unlock()
}

const maxSamples = 4

func (c *Ctx) Sample(v interface{}) {
	c.mu.Lock()
	defer c.mu.Unlock()
	if len(c.res.Samples) >= maxSamples {
		return
	}
	b, err := json.Marshal(v)
	if err != nil {
		b, _ = json.Marshal(fmt.Sprintf("%v", v))
	}
	if len(b) > 6000 {
		b, _ = json.Marshal(string(b[:6000]) + "…(clipped)")
	}
	c.res.Samples = append(c.res.Samples, b)
}

func (c *Ctx) WantSample() bool {
	c.mu.Lock()
	defer c.mu.Unlock()
	return len(c.res.Samples) < maxSamples
}

func (c *Ctx) Violate(sig, msg, detail string) {
	c.mu.Lock()
	defer c.mu.Unlock()
	if len(detail) > 20000 {
		detail = detail[:20000] + "…(clipped)"
	}
	v := Violation{Property: c.Prop.ID, Phase: c.Phase, Idx: c.Idx, Seed: c.Seed, Tier: c.Tier, Sig: sig, Msg: msg, Detail: detail}
	if c.Verbose {
		fmt.Printf("violation: sig=%s\n  %s\n%s\n", sig, msg, detail)
	}
	if len(c.res.Violations) < 200 {
		c.res.Violations = append(c.res.Violations, v)
	}
}

func (c *Ctx) Note(s string) {
	c.mu.Lock()
	if len(c.res.Notes) < 50 {
		c.res.Notes = append(c.res.Notes, s)
	}
	c.mu.Unlock()
}

func (c *Ctx) Violated() bool {
	c.mu.Lock()
	defer c.mu.Unlock()
	return len(c.res.Violations) > 0
}

// Try runs f and converts a panic into (panicked, message, stack). Panics
// raised inside ice are results for the oracles.
func Try(f func()) (panicked bool, msg string, stack string) {
	defer func() {
		if r := recover(); r != nil {
			panicked = true
			msg = fmt.Sprintf("%v", r)
			stack = string(debug.Stack())
		}
	}()
	f()
	return
}

const IceFrame = "github.com/blugelabs/ice/v2."

// StackInIce says whether a stack has a frame inside ice.
func StackInIce(stack string) bool { return strings.Contains(stack, IceFrame) }

// TopIceFrame returns the innermost ice function of a debug.Stack() dump.
func TopIceFrame(stack string) string {
	for _, l := range strings.Split(stack, "\n") {
		if strings.HasPrefix(l, IceFrame) {
			l = strings.TrimPrefix(l, IceFrame)
			if i := strings.LastIndex(l, "("); i > 0 {
				l = l[:i]
			}
			return l
		}
	}
	return ""
}

// runCase runs one case with panic containment.
func runCase(p *Property, ph *Phase, tier string, seed int64, idx int, res *Result, mu *sync.Mutex, tmp string, verbose bool) {
	c := &Ctx{Prop: p, Phase: ph.Name, Tier: tier, Seed: seed, Idx: idx, R: CaseRand(seed, p.ID, ph.Name, idx),
		res: res, mu: mu, TmpDir: tmp, Verbose: verbose}
	panicked, msg, stack := Try(func() { ph.Run(c) })
	if panicked {
		if StackInIce(stack) {
			c.Violate("panic:"+TopIceFrame(stack), "panic inside ice escaped a read/write API: "+msg, stack)
		} else {
			c.Note(fmt.Sprintf("harness panic in case %s/%d: %s\n%s", ph.Name, idx, msg, stack))
		}
	}
}

// ChildMain runs the cases of one shard and writes the result file.
func ChildMain(p *Property, phaseName, tier string, seed int64, shard, nshards int, outDir string) int {
	ph := p.phase(phaseName)
	if ph == nil {
		fmt.Fprintf(os.Stderr, "unknown phase %q\n", phaseName)
		return 3
	}
	n := ph.Cases(tier)
	res := NewResult()
	var mu sync.Mutex
	jf, err := os.OpenFile(filepath.Join(outDir, fmt.Sprintf("journal.%d", shard)), os.O_CREATE|os.O_WRONLY|os.O_TRUNC, 0o644)
	if err != nil {
		fmt.Fprintln(os.Stderr, err)
		return 3
	}
	defer jf.Close()
	tmp := filepath.Join(outDir, fmt.Sprintf("tmp.%d", shard))
	os.MkdirAll(tmp, 0o755)
	defer os.RemoveAll(tmp)
	for idx := shard; idx < n; idx += nshards {
		fmt.Fprintf(jf, "B %d\n", idx)
		runCase(p, ph, tier, seed, idx, res, &mu, tmp, false)
		fmt.Fprintf(jf, "E %d\n", idx)
	}
	res.Done = true
	b, _ := json.Marshal(res)
	if err := os.WriteFile(filepath.Join(outDir, fmt.Sprintf("result.%d.json", shard)), b, 0o644); err != nil {
		fmt.Fprintln(os.Stderr, err)
		return 3
	}
	return 0
}

func (p *Property) phase(name string) *Phase {
	for i := range p.Phases {
		if p.Phases[i].Name == name {
			return &p.Phases[i]
		}
	}
	return nil
}

// Replay re-runs exactly one case in-process, verbosely.
func Replay(p *Property, path string) int {
	b, err := os.ReadFile(path)
	if err != nil {
		fmt.Fprintln(os.Stderr, err)
		return 3
	}
	var v Violation
	if err := json.Unmarshal(b, &v); err != nil {
		fmt.Fprintln(os.Stderr, err)
		return 3
	}
	ph := p.phase(v.Phase)
	if ph == nil {
		fmt.Fprintf(os.Stderr, "unknown phase %q\n", v.Phase)
		return 3
	}
	res := NewResult()
	var mu sync.Mutex
	tmp, _ := os.MkdirTemp("", "icecheck-replay")
	defer os.RemoveAll(tmp)
	fmt.Printf("replaying %s phase=%s case=%d seed=%d tier=%s (recorded sig=%s)\n", p.ID, v.Phase, v.Idx, v.Seed, v.Tier, v.Sig)
	runCase(p, ph, v.Tier, v.Seed, v.Idx, res, &mu, tmp, true)
	for _, n := range res.Notes {
		fmt.Println("note:", n)
	}
	if len(res.Violations) > 0 {
		fmt.Printf("reproduced: %d violation(s)\n", len(res.Violations))
		return 1
	}
	fmt.Println("not reproduced")
	return 0
}

func sortedKeys(m map[string]int64) []string {
	ks := make([]string, 0, len(m))
	for k := range m {
		ks = append(ks, k)
	}
	sort.Strings(ks)
	return ks
}

// NewDetachedCtx builds a context outside the case loop (worker processes that
// must regenerate exactly the case their parent is running).
func NewDetachedCtx(prop, phase, tier string, seed int64, idx int, tmp string) *Ctx {
	return &Ctx{Prop: &Property{ID: prop}, Phase: phase, Tier: tier, Seed: seed, Idx: idx, R: CaseRand(seed, prop, phase, idx),
		res: NewResult(), mu: &sync.Mutex{}, TmpDir: tmp}
}
