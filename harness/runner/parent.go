package runner

import (
	"bufio"
	"bytes"
	"encoding/json"
	"fmt"
	"os"
	"os/exec"
	"path/filepath"
	"regexp"
	"sort"
	"strconv"
	"strings"
	"sync"
	"syscall"
	"time"
)

// ParentPhase is the parent's view of one finished phase.
type ParentPhase struct {
	Prop    *Property
	Phase   *Phase
	Tier    string
	Seed    int64
	OutDir  string
	Agg     *Result
	Inconcl []string
}

type finding struct {
	Status   string `json:"status"` // open | fixed
	Property string `json:"property"`
	Match    string `json:"match,omitempty"` // regexp over "<sig> <msg>" (open findings only)
	What     string `json:"what"`
	Commit   string `json:"commit,omitempty"`
}

type findingsFile struct {
	Findings []finding `json:"findings"`
}

func loadFindings() []finding {
	b, err := os.ReadFile(filepath.Join(VerifDir, "KNOWN_FINDINGS.json"))
	if err != nil {
		return nil
	}
	var ff findingsFile
	if json.Unmarshal(b, &ff) != nil {
		return nil
	}
	return ff.Findings
}

// selfPath: the race variant sits next to the running binary.
func selfPath(race bool) string {
	dir := filepath.Join(VerifDir, "harness", "bin")
	if exe, err := os.Executable(); err == nil {
		dir = filepath.Dir(exe)
	}
	if race {
		return filepath.Join(dir, "icecheck-race")
	}
	return filepath.Join(dir, "icecheck")
}

// EvidenceDir is /verif/evidence unless VERIF_EVIDENCE_DIR redirects it (used
// only when the checks are pointed at a scratch copy of the repository).
func EvidenceDir() string {
	if d := os.Getenv("VERIF_EVIDENCE_DIR"); d != "" {
		return d
	}
	return filepath.Join(VerifDir, "evidence")
}

func watchdog(tier string) time.Duration {
	if s := os.Getenv("VERIF_WATCHDOG_S"); s != "" {
		if n, err := strconv.Atoi(s); err == nil {
			return time.Duration(n) * time.Second
		}
	}
	if tier == "thorough" {
		return 3 * time.Hour
	}
	return 25 * time.Minute
}

// ParentMain runs every phase of a property and returns the exit code.
func ParentMain(p *Property, tier string, seed int64, onlyPhase string) int {
	start := time.Now()
	runDir, err := os.MkdirTemp("", "icecheck-"+p.ID+"-")
	if err != nil {
		fmt.Fprintln(os.Stderr, err)
		return 2
	}
	defer os.RemoveAll(runDir)

	total := NewResult()
	var inconclusive []string
	phaseInfo := map[string]interface{}{}
	for i := range p.Phases {
		ph := &p.Phases[i]
		if onlyPhase != "" && ph.Name != onlyPhase {
			continue
		}
		n := ph.Cases(tier)
		if n == 0 {
			continue
		}
		pp := runPhase(p, ph, tier, seed, filepath.Join(runDir, ph.Name))
		if ph.Post != nil {
			ph.Post(pp)
		}
		phaseInfo[ph.Name] = map[string]interface{}{"cases": n, "evaluations": pp.Agg.Evaluations, "race_build": ph.Race}
		// samples: at most two per phase, so that every phase is represented
		perPhase := pp.Agg.Samples
		if len(perPhase) > 2 && len(p.Phases) > 1 {
			perPhase = perPhase[:2]
		}
		pp.Agg.Samples = nil
		mergeResult(total, pp.Agg)
		total.Samples = append(total.Samples, perPhase...)
		inconclusive = append(inconclusive, pp.Inconcl...)
	}

	// coverage floors
	if p.Floors != nil && onlyPhase == "" {
		for k, min := range p.Floors(tier) {
			got := total.Counters[k]
			if m, ok := total.Maxes[k]; ok && m > got {
				got = m
			}
			if got < min {
				inconclusive = append(inconclusive, fmt.Sprintf("coverage floor not met: %s=%d < %d", k, got, min))
			}
		}
	}

	// known findings filter
	findings := loadFindings()
	var fresh []Violation
	knownHit := map[int]bool{}
	for _, v := range total.Violations {
		matched := false
		for fi, f := range findings {
			if f.Status != "open" || f.Property != p.ID || f.Match == "" {
				continue
			}
			re, err := regexp.Compile(f.Match)
			if err != nil {
				continue
			}
			if re.MatchString(v.Sig + " " + v.Msg) {
				matched = true
				knownHit[fi] = true
				break
			}
		}
		if !matched {
			fresh = append(fresh, v)
		}
	}
	for fi := range findings {
		if knownHit[fi] {
			fmt.Printf("KNOWN-FINDING: property=%s %s\n", p.ID, findings[fi].What)
		}
	}

	distinct := int64(0)
	for _, w := range total.Distinct {
		distinct += w
	}
	wall := time.Since(start).Seconds()
	cov := map[string]interface{}{
		"evaluations":         total.Evaluations,
		"distinct_nontrivial": distinct,
		"rule":                p.Rule,
		"samples":             total.Samples,
		"counters":            total.Counters,
		"maxima":              total.Maxes,
		"phases":              phaseInfo,
	}
	if p.Exhaustive != nil && p.Exhaustive(tier) {
		cov["exhaustive"] = true
	}
	if len(inconclusive) > 0 {
		cov["inconclusive"] = inconclusive
	}
	if len(total.Samples) == 0 {
		cov["samples"] = []string{}
	}
	ev := map[string]interface{}{
		"property_id": p.ID,
		"tier":        tier,
		"seed":        seed,
		"level":       p.Level,
		"coverage":    cov,
		"assumptions": p.Assumptions,
		"wall_s":      wall,
		"violations":  len(fresh),
	}
	if onlyPhase == "" {
		os.MkdirAll(EvidenceDir(), 0o755)
		b, _ := json.MarshalIndent(ev, "", " ")
		if err := os.WriteFile(filepath.Join(EvidenceDir(), p.ID+".json"), b, 0o644); err != nil {
			fmt.Fprintln(os.Stderr, "cannot write evidence:", err)
			return 2
		}
	}

	fmt.Printf("%s tier=%s seed=%d: evaluations=%d distinct_nontrivial=%d violations=%d known=%d wall=%.1fs\n",
		p.ID, tier, seed, total.Evaluations, distinct, len(fresh), len(total.Violations)-len(fresh), wall)
	for _, k := range sortedKeys(total.Counters) {
		fmt.Printf("  %s=%d\n", k, total.Counters[k])
	}
	for _, k := range sortedKeys(total.Maxes) {
		fmt.Printf("  max.%s=%d\n", k, total.Maxes[k])
	}

	if len(fresh) > 0 {
		os.MkdirAll(filepath.Join(EvidenceDir(), "replay"), 0o755)
		seen := map[string]int{}
		printed := 0
		sort.SliceStable(fresh, func(a, b int) bool { return fresh[a].Idx < fresh[b].Idx })
		for _, v := range fresh {
			seen[v.Sig]++
			if seen[v.Sig] > 1 || printed >= 8 {
				continue
			}
			printed++
			path := filepath.Join(EvidenceDir(), "replay", fmt.Sprintf("%s-%d-%s-%d.json", p.ID, seed, v.Phase, v.Idx))
			b, _ := json.MarshalIndent(v, "", " ")
			os.WriteFile(path, b, 0o644)
			fmt.Printf("  what: [%s] %s\n", v.Sig, firstLine(v.Msg))
			fmt.Printf("VIOLATION property=%s replay=%s\n", p.ID, path)
		}
		return 1
	}
	if len(inconclusive) > 0 {
		for _, s := range inconclusive {
			fmt.Printf("INCONCLUSIVE property=%s %s\n", p.ID, firstLine(s))
		}
		return 2
	}
	return 0
}

func firstLine(s string) string {
	if i := strings.IndexByte(s, '\n'); i >= 0 {
		s = s[:i]
	}
	if len(s) > 300 {
		s = s[:300] + "…"
	}
	return s
}

func mergeResult(dst, src *Result) {
	dst.Evaluations += src.Evaluations
	for k, v := range src.Counters {
		dst.Counters[k] += v
	}
	for k, v := range src.Maxes {
		if v > dst.Maxes[k] {
			dst.Maxes[k] = v
		}
	}
	for k, v := range src.Distinct {
		if v > dst.Distinct[k] {
			dst.Distinct[k] = v
		}
	}
	for _, s := range src.Samples {
		if len(dst.Samples) < maxSamples {
			dst.Samples = append(dst.Samples, s)
		}
	}
	dst.Violations = append(dst.Violations, src.Violations...)
	dst.Notes = append(dst.Notes, src.Notes...)
}

func runPhase(p *Property, ph *Phase, tier string, seed int64, outDir string) *ParentPhase {
	os.MkdirAll(outDir, 0o755)
	pp := &ParentPhase{Prop: p, Phase: ph, Tier: tier, Seed: seed, OutDir: outDir, Agg: NewResult()}
	n := ph.Cases(tier)
	procs := 16
	if ph.Procs != nil {
		procs = ph.Procs(tier)
	}
	if procs > n {
		procs = n
	}
	if procs < 1 {
		procs = 1
	}
	var wg sync.WaitGroup
	var mu sync.Mutex
	wd := watchdog(tier)
	for shard := 0; shard < procs; shard++ {
		wg.Add(1)
		go func(shard int) {
			defer wg.Done()
			errPath := filepath.Join(outDir, fmt.Sprintf("stderr.%d", shard))
			ef, _ := os.Create(errPath)
			cmd := exec.Command(selfPath(ph.Race), "-child", "-prop", p.ID, "-phase", ph.Name, "-tier", tier,
				"-seed", strconv.FormatInt(seed, 10), "-shard", strconv.Itoa(shard), "-nshards", strconv.Itoa(procs), "-out", outDir)
			cmd.Stdout = ef
			cmd.Stderr = ef
			cmd.Env = os.Environ()
			if ph.Race {
				cmd.Env = append(cmd.Env, "GORACE=halt_on_error=0 history_size=4 log_path="+filepath.Join(outDir, fmt.Sprintf("race.%d", shard)))
			}
			cmd.SysProcAttr = &syscall.SysProcAttr{Setpgid: true}
			err := cmd.Start()
			if err != nil {
				mu.Lock()
				pp.Inconcl = append(pp.Inconcl, "cannot start child: "+err.Error())
				mu.Unlock()
				ef.Close()
				return
			}
			done := make(chan error, 1)
			go func() { done <- cmd.Wait() }()
			timedOut := false
			select {
			case err = <-done:
			case <-time.After(wd):
				timedOut = true
				cmd.Process.Signal(syscall.SIGQUIT) // goroutine dump goes to the stderr file
				select {
				case err = <-done:
				case <-time.After(20 * time.Second):
					syscall.Kill(-cmd.Process.Pid, syscall.SIGKILL)
					err = <-done
				}
			}
			ef.Close()
			res := readResult(filepath.Join(outDir, fmt.Sprintf("result.%d.json", shard)))
			mu.Lock()
			defer mu.Unlock()
			if res != nil && res.Done {
				mergeResult(pp.Agg, res)
				for _, nte := range res.Notes {
					pp.Inconcl = append(pp.Inconcl, nte)
				}
				return
			}
			// the child died or hung: attribute to the last case begun
			stderr, _ := os.ReadFile(errPath)
			idx := lastBegun(filepath.Join(outDir, fmt.Sprintf("journal.%d", shard)))
			tail := tailBytes(stderr, 12000)
			switch {
			case timedOut:
				if blockedInIce(string(stderr)) {
					pp.Agg.Violations = append(pp.Agg.Violations, Violation{Property: p.ID, Phase: ph.Name, Idx: idx, Seed: seed, Tier: tier,
						Sig: "blocked-on-segment-mutex", Msg: "watchdog fired and a goroutine is parked in sync.(*Mutex).Lock below an ice frame", Detail: tail})
				} else {
					pp.Inconcl = append(pp.Inconcl, fmt.Sprintf("watchdog (%s) fired in phase %s shard %d case %d", wd, ph.Name, shard, idx))
				}
			case crashedInIce(string(stderr)):
				pp.Agg.Violations = append(pp.Agg.Violations, Violation{Property: p.ID, Phase: ph.Name, Idx: idx, Seed: seed, Tier: tier,
					Sig: "process-fatal:" + fatalLine(string(stderr)), Msg: "child process died with a runtime fatal error below an ice frame: " + fatalLine(string(stderr)), Detail: tail})
			default:
				pp.Inconcl = append(pp.Inconcl, fmt.Sprintf("child for phase %s shard %d ended without a result (%v) at case %d: %s", ph.Name, shard, err, idx, firstLine(fatalLine(string(stderr)))))
			}
		}(shard)
	}
	wg.Wait()
	return pp
}

func readResult(path string) *Result {
	b, err := os.ReadFile(path)
	if err != nil {
		return nil
	}
	r := NewResult()
	if json.Unmarshal(b, r) != nil {
		return nil
	}
	return r
}

func lastBegun(journal string) int {
	f, err := os.Open(journal)
	if err != nil {
		return -1
	}
	defer f.Close()
	last := -1
	sc := bufio.NewScanner(f)
	for sc.Scan() {
		l := sc.Text()
		if strings.HasPrefix(l, "B ") {
			last, _ = strconv.Atoi(l[2:])
		}
	}
	return last
}

func tailBytes(b []byte, n int) string {
	if len(b) > n {
		b = b[len(b)-n:]
	}
	return string(b)
}

func fatalLine(stderr string) string {
	for _, l := range strings.Split(stderr, "\n") {
		if strings.HasPrefix(l, "fatal error:") || strings.HasPrefix(l, "panic:") || strings.Contains(l, "unexpected fault address") {
			return l
		}
	}
	return firstLine(stderr)
}

// crashedInIce says whether a runtime fatal error / unrecovered panic was
// raised by a goroutine whose stack (the first one printed after the fatal
// line) contains an ice frame.
func crashedInIce(stderr string) bool {
	i := -1
	for _, marker := range []string{"fatal error:", "panic:", "unexpected fault address"} {
		if j := strings.Index(stderr, marker); j >= 0 && (i < 0 || j < i) {
			i = j
		}
	}
	if i < 0 {
		return false
	}
	rest := stderr[i:]
	// first goroutine block
	g := strings.Index(rest, "\ngoroutine ")
	if g < 0 {
		return false
	}
	blk := rest[g+1:]
	if e := strings.Index(blk, "\n\n"); e >= 0 {
		blk = blk[:e]
	}
	return strings.Contains(blk, IceFrame)
}

// blockedInIce looks in a SIGQUIT goroutine dump for a goroutine that waits in
// sync.(*Mutex).Lock with an ice frame below it.
func blockedInIce(dump string) bool {
	for _, g := range strings.Split(dump, "\n\n") {
		if (strings.Contains(g, "sync.(*Mutex).Lock") || strings.Contains(g, "sync.(*Mutex).lockSlow")) && strings.Contains(g, IceFrame) {
			return true
		}
	}
	return false
}

// ---------- race logs

type RaceReport struct {
	Key   string
	Ice   bool
	Block string
}

var frameRe = regexp.MustCompile(`(?m)^  (\S+)\(\)\s*$`)

// ParseRaceLogs reads every race.* file in a directory, splits it into report
// blocks and de-duplicates by the pair of outermost ice functions.
func ParseRaceLogs(dir string) (reports []RaceReport, blocks int) {
	files, _ := filepath.Glob(filepath.Join(dir, "race.*"))
	seen := map[string]bool{}
	for _, f := range files {
		b, err := os.ReadFile(f)
		if err != nil {
			continue
		}
		for _, blk := range bytes.Split(b, []byte("==================")) {
			s := string(blk)
			if !strings.Contains(s, "WARNING: DATA RACE") {
				continue
			}
			blocks++
			// stacks are separated by blank lines; take the first two (the conflicting accesses)
			parts := strings.Split(s, "\n\n")
			var outer []string
			ice := false
			for _, part := range parts {
				if !(strings.Contains(part, "by goroutine") || strings.Contains(part, "by main goroutine")) || strings.HasPrefix(strings.TrimSpace(part), "Goroutine") {
					continue
				}
				if len(outer) >= 2 {
					break
				}
				o := ""
				for _, m := range frameRe.FindAllStringSubmatch(part, -1) {
					if strings.HasPrefix(m[1], IceFrame) {
						ice = true
						if fn := strings.TrimPrefix(m[1], IceFrame); !strings.HasPrefix(fn, "Verif") {
							o = fn // keeps the last (outermost) ice frame that is not a verif hook
						}
					}
				}
				outer = append(outer, o)
			}
			sort.Strings(outer)
			key := strings.Join(outer, " <-> ")
			if seen[key] {
				continue
			}
			seen[key] = true
			reports = append(reports, RaceReport{Key: key, Ice: ice, Block: s})
		}
	}
	return
}
