// Package golden defines the on-disk layout of the C10 golden corpus: files
// written once by the ORIGINAL pinned ice commit, their generating inputs and
// the observation text recorded by the reference reader.
package golden

import (
	"compress/gzip"
	"encoding/json"
	"io"
	"os"

	"verif/harness/model"
)

type Input struct {
	Mode uint32        `json:"mode"`
	Docs []*model.MDoc `json:"docs"`
}

// Recipe describes how a golden file was produced.
type Recipe struct {
	Name   string     `json:"name"`
	Kind   string     `json:"kind"` // built | merged
	Mode   uint32     `json:"mode"` // chunk mode of the file
	Docs   []*model.MDoc `json:"docs,omitempty"`   // built
	Inputs []Input    `json:"inputs,omitempty"` // merged: built inputs
	Drops  [][]uint32 `json:"drops,omitempty"`  // merged: per input, nil = no bitmap
	Shape  string     `json:"shape"`
}

func WriteGz(path string, v interface{}) error {
	f, err := os.Create(path)
	if err != nil {
		return err
	}
	defer f.Close()
	z := gzip.NewWriter(f)
	switch x := v.(type) {
	case string:
		_, err = z.Write([]byte(x))
	default:
		err = json.NewEncoder(z).Encode(v)
	}
	if err != nil {
		return err
	}
	return z.Close()
}

func ReadGz(path string) ([]byte, error) {
	f, err := os.Open(path)
	if err != nil {
		return nil, err
	}
	defer f.Close()
	z, err := gzip.NewReader(f)
	if err != nil {
		return nil, err
	}
	return io.ReadAll(z)
}

func ReadRecipe(path string) (*Recipe, error) {
	b, err := ReadGz(path)
	if err != nil {
		return nil, err
	}
	var r Recipe
	if err := json.Unmarshal(b, &r); err != nil {
		return nil, err
	}
	return &r, nil
}
