// Package observe produces a canonical textual observation of a segment using
// only the public bluge_segment_api read interface. Two segments are
// observationally identical iff their observation texts are equal. The text
// format is the same as model.XSeg.Dump.
package observe

import (
	"fmt"
	"math"
	"strings"

	segment "github.com/blugelabs/bluge_segment_api"

	"verif/harness/model"
)

type Opts = model.DumpOpts

// Observe never panics: a panic inside the segment is returned as an error,
// together with the text observed so far.
func Observe(s segment.Segment, o Opts) (out string, err error) {
	var b strings.Builder
	defer func() {
		if r := recover(); r != nil {
			out = b.String()
			err = fmt.Errorf("panic: %v", r)
		}
	}()
	fields := s.Fields()
	fmt.Fprintf(&b, "fields=%q count=%d\n", fields, s.Count())
	for _, f := range fields {
		if o.Stats {
			cs, err := s.CollectionStats(f)
			if err != nil {
				return b.String(), fmt.Errorf("CollectionStats(%q): %w", f, err)
			}
			fmt.Fprintf(&b, "F %q stats total=%d docs=%d ttf=%d\n", f, cs.TotalDocumentCount(), cs.DocumentCount(), cs.SumTotalTermFrequency())
		}
		if !o.Postings {
			continue
		}
		d, err := s.Dictionary(f)
		if err != nil {
			return b.String(), fmt.Errorf("Dictionary(%q): %w", f, err)
		}
		it := d.Iterator(nil, nil, nil)
		for {
			e, err := it.Next()
			if err != nil {
				return b.String(), fmt.Errorf("DictionaryIterator.Next(%q): %w", f, err)
			}
			if e == nil {
				break
			}
			term := e.Term()
			// count from a fresh postings list; the iterator's own count is C08's business
			pl, err := d.PostingsList([]byte(term), nil, nil)
			if err != nil {
				return b.String(), fmt.Errorf("PostingsList(%q,%q): %w", f, term, err)
			}
			fmt.Fprintf(&b, "F %q T %q n=%d\n", f, term, pl.Count())
			pi, err := pl.Iterator(true, true, true, nil)
			if err != nil {
				return b.String(), fmt.Errorf("Iterator(%q,%q): %w", f, term, err)
			}
			for {
				p, err := pi.Next()
				if err != nil {
					return b.String(), fmt.Errorf("Next(%q,%q): %w", f, term, err)
				}
				if p == nil {
					break
				}
				b.WriteString(model.FmtPosting(p.Number(), p.Frequency(), math.Float32bits(float32(p.Norm())), Locs(p)))
				b.WriteByte('\n')
			}
		}
	}
	if !o.Stored && !o.DV {
		return b.String(), nil
	}
	dvr, err := s.DocumentValueReader(fields)
	if err != nil {
		return b.String(), fmt.Errorf("DocumentValueReader: %w", err)
	}
	for dn := uint64(0); dn < s.Count(); dn++ {
		if o.Stored {
			var st []model.XStored
			err := s.VisitStoredFields(dn, func(f string, v []byte) bool {
				st = append(st, model.XStored{Field: f, Val: string(v)})
				return true
			})
			if err != nil {
				return b.String(), fmt.Errorf("VisitStoredFields(%d): %w", dn, err)
			}
			fmt.Fprintf(&b, "D %d stored=%q\n", dn, st)
		}
		if !o.DV {
			continue
		}
		dv := map[string][]string{}
		err = dvr.VisitDocumentValues(dn, func(f string, t []byte) {
			dv[f] = append(dv[f], string(t))
		})
		if err != nil {
			return b.String(), fmt.Errorf("VisitDocumentValues(%d): %w", dn, err)
		}
		for _, f := range fields {
			if len(dv[f]) > 0 {
				fmt.Fprintf(&b, "D %d dv %q=%q\n", dn, f, dv[f])
				delete(dv, f)
			}
		}
		for f, v := range dv { // a field name the segment does not list: always a mismatch
			fmt.Fprintf(&b, "D %d dv-unlisted %q=%q\n", dn, f, v)
		}
	}
	return b.String(), nil
}

func Locs(p segment.Posting) []model.XLoc {
	var locs []model.XLoc
	for _, l := range p.Locations() {
		locs = append(locs, model.XLoc{Field: l.Field(), Pos: l.Pos(), S: l.Start(), E: l.End()})
	}
	return locs
}
