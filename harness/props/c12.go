package props

import (
	"bytes"
	"errors"
	"fmt"
	"io"
	"math/rand"
	"runtime"
	"sort"
	"sync"

	"github.com/RoaringBitmap/roaring"
	segment "github.com/blugelabs/bluge_segment_api"
	ice "github.com/blugelabs/ice/v2"

	"verif/harness/gen"
	"verif/harness/model"
	"verif/harness/observe"
	"verif/harness/runner"
)

// C12 — a failing writer or a cancelled merge never yields silent success.

var errInjected = errors.New("injected write failure")

// failWriter accepts bytes up to offset at, then fails on that call and
// (unless transient) on all later calls.
type failWriter struct {
	buf       bytes.Buffer
	at        int
	transient bool
	failed    int
}

func (w *failWriter) Write(p []byte) (int, error) {
	if w.transient && w.failed > 0 {
		return w.buf.Write(p)
	}
	room := w.at - w.buf.Len()
	if room >= len(p) {
		return w.buf.Write(p) // still below the failure offset
	}
	if room < 0 {
		room = 0
	}
	w.buf.Write(p[:room])
	w.failed++
	return room, errInjected
}

// cancelWriter closes the channel from inside Write once at bytes were received.
type cancelWriter struct {
	buf  bytes.Buffer
	at   int
	ch   chan struct{}
	once sync.Once
}

func (w *cancelWriter) Write(p []byte) (int, error) {
	n, err := w.buf.Write(p)
	if w.buf.Len() >= w.at {
		w.once.Do(func() { close(w.ch) })
	}
	return n, err
}

type c12Job struct {
	kind     string // merge-public | merge-mode | persist-built | persist-mem | persist-file
	segs     []*gen.Seg
	drops    []*roaring.Bitmap
	bufSize  int
	mode     uint32
	ref      []byte
	expected *model.XSeg
}

func (j *c12Job) run(w io.Writer, ch chan struct{}) (n int64, err error, panicked bool, pmsg string) {
	panicked, pmsg, _ = runner.Try(func() {
		switch j.kind {
		case "merge-public":
			ss := make([]segment.Segment, len(j.segs))
			for i, s := range j.segs {
				ss[i] = s.S
			}
			n, err = ice.Merge(ss, j.drops, j.bufSize).WriteTo(w, ch)
		case "merge-mode":
			ss := make([]segment.Segment, len(j.segs))
			for i, s := range j.segs {
				ss[i] = s.S
			}
			var un uint64
			_, un, err = ice.VerifMerge(ss, j.drops, w, j.mode, ch)
			n = int64(un)
		default:
			n, err = j.segs[0].S.WriteTo(w, ch)
		}
	})
	return
}

func (j *c12Job) describe() string {
	s := fmt.Sprintf("job=%s buffer=%d mode=%d reference file=%d bytes; inputs:", j.kind, j.bufSize, j.mode, len(j.ref))
	for i, sg := range j.segs {
		d := "-"
		if j.drops != nil && j.drops[i] != nil {
			d = clipS(j.drops[i].String(), 60)
		}
		s += fmt.Sprintf(" [%s docs=%d drops=%s]", sg.Kind, len(sg.X.Docs), d)
	}
	return s
}

var c12Buffers = []int{0, 1, 2, 7, 64, 4096, 1 << 20}

func c12Jobs(c *runner.Ctx, w *gen.World) []*c12Job {
	r := c.R
	var jobs []*c12Job
	segs := w.Segs
	// two merges over random inputs
	for k := 0; k < 2; k++ {
		n := 1 + r.Intn(3)
		var ins []*gen.Seg
		var drops []*roaring.Bitmap
		var xs []*model.XSeg
		for i := 0; i < n; i++ {
			s := segs[r.Intn(len(segs))]
			ins = append(ins, s)
			drops = append(drops, gen.Drops(r, len(s.X.Docs), -1))
			xs = append(xs, s.X)
		}
		x, _ := model.Merge(xs, drops)
		buf := c12Buffers[r.Intn(len(c12Buffers))]
		if r.Intn(3) == 0 {
			buf = r.Intn(8192) // any buffer size
		}
		j := &c12Job{kind: "merge-public", segs: ins, drops: drops, bufSize: buf, mode: 1025, expected: x}
		if k == 1 {
			j.kind = "merge-mode"
			j.mode = gen.SmallModes[r.Intn(len(gen.SmallModes))]
		}
		jobs = append(jobs, j)
	}
	// persists: one built, one memory-loaded, one file-loaded if present
	seen := map[string]bool{}
	for _, s := range segs {
		k := map[string]string{"built": "persist-built", "loaded-mem": "persist-mem", "loaded-file": "persist-file", "merged": "persist-mem"}[s.Kind]
		if seen[k] || (r.Intn(2) == 0 && s.Kind != "loaded-file") {
			continue
		}
		seen[k] = true
		jobs = append(jobs, &c12Job{kind: k, segs: []*gen.Seg{s}, expected: s.X})
	}
	return jobs
}

// offsets returns the fault offsets for a file of length n: all of them for
// small files, otherwise structural boundaries +-2 and a stride sample.
func c12Offsets(r *rand.Rand, ref []byte, limit int) (offs []int, exhaustive bool) {
	n := len(ref)
	if n <= limit {
		for i := 0; i < n; i++ {
			offs = append(offs, i)
		}
		return offs, true
	}
	set := map[int]bool{0: true, 1: true, n - 1: true, n - 2: true}
	if ft, ok := parseFooter(ref); ok {
		for _, b := range []uint64{uint64(n - footerLen), ft.Stored, ft.Fields, ft.DV} {
			for d := -2; d <= 2; d++ {
				if o := int(b) + d; o >= 0 && o < n {
					set[o] = true
				}
			}
		}
	}
	stride := n/300 + 1
	for o := r.Intn(stride); o < n; o += stride {
		set[o] = true
	}
	for o := n - footerLen - 4; o < n; o++ {
		if o >= 0 {
			set[o] = true
		}
	}
	for o := range set {
		offs = append(offs, o)
	}
	sort.Ints(offs)
	return offs, false
}

func c12Reference(c *runner.Ctx, j *c12Job) bool {
	var buf bytes.Buffer
	n, err, panicked, pmsg := j.run(&buf, nil)
	if panicked || err != nil {
		c.Note(fmt.Sprintf("case %d: fault-free reference run failed (C02/C04's business): %v %s", c.Idx, err, pmsg))
		return false
	}
	if int(n) != buf.Len() {
		c.Note(fmt.Sprintf("case %d: fault-free run reported n=%d for %d bytes (C04/C11's business)", c.Idx, n, buf.Len()))
		return false
	}
	j.ref = append([]byte(nil), buf.Bytes()...)
	// the reference itself must be the correct file
	ls, err := gen.LoadMem(j.ref)
	if err != nil {
		c.Note(fmt.Sprintf("case %d: reference does not load (C04's business): %v", c.Idx, err))
		return false
	}
	got, err := observe.Observe(ls, model.All)
	if err != nil || got != j.expected.Dump(model.All) {
		c.Note(fmt.Sprintf("case %d: reference differs from the specification (C01/C02's business)", c.Idx))
		return false
	}
	return true
}

func c12World(c *runner.Ctx) (*gen.World, error) {
	return gen.GenWorld(c.R, c.TmpDir, fmt.Sprintf("w%d", c.Idx), gen.WorldOpts{MaxDocs: 20, MinDocs: 1})
}

func c12Run(c *runner.Ctx) {
	r := c.R
	w, err := c12World(c)
	if w = usable(c, w, err); w == nil {
		return
	}
	defer w.Close()
	limit := 4096
	for _, j := range c12Jobs(c, w) {
		if !c12Reference(c, j) {
			continue
		}
		offs, exhaustive := c12Offsets(r, j.ref, limit)
		isMerge := j.kind == "merge-public" || j.kind == "merge-mode"
		points := int64(0)
		for _, at := range offs {
			// (1) permanently failing writer
			fw := &failWriter{at: at}
			n, err, panicked, pmsg := j.run(fw, nil)
			c.Eval(1)
			points++
			switch {
			case panicked:
				c.Violate("fail:panic:"+j.kind, fmt.Sprintf("writer failing at offset %d of %d: WriteTo panicked: %s", at, len(j.ref), pmsg), j.describe())
			case err == nil:
				c.Violate("fail:silent-success:"+j.kind+bufClass(j), fmt.Sprintf("writer failing at offset %d of %d: WriteTo returned n=%d, err=nil (received %d bytes)", at, len(j.ref), n, fw.buf.Len()), j.describe())
			default:
				c.Inc("fail_points."+j.kind, 1)
			}
			// (2) transient failure: fails once, later writes succeed
			if at%3 == 0 {
				tw := &failWriter{at: at, transient: true}
				_, err, panicked, pmsg := j.run(tw, nil)
				c.Eval(1)
				points++
				switch {
				case panicked:
					c.Violate("transient:panic:"+j.kind, fmt.Sprintf("writer failing once at offset %d: WriteTo panicked: %s", at, pmsg), j.describe())
				case err == nil:
					c.Violate("transient:silent-success:"+j.kind+bufClass(j), fmt.Sprintf("writer failing once at offset %d of %d: WriteTo returned err=nil although one Write failed (received %d bytes)", at, len(j.ref), tw.buf.Len()), j.describe())
				default:
					c.Inc("transient_fail_points."+j.kind, 1)
				}
			}
			// (3) cancellation at a point measured in bytes written
			if isMerge {
				cw := &cancelWriter{at: at, ch: make(chan struct{})}
				_, err, panicked, pmsg := j.run(cw, cw.ch)
				c.Eval(1)
				points++
				c12Cancelled(c, j, fmt.Sprintf("close channel closed after %d of %d bytes", at, len(j.ref)), "cancel", cw.buf.Bytes(), err, panicked, pmsg)
			}
		}
		if isMerge {
			// closed before the merge starts
			ch := make(chan struct{})
			close(ch)
			var buf bytes.Buffer
			_, err, panicked, pmsg := j.run(&buf, ch)
			c.Eval(1)
			points++
			c12Cancelled(c, j, "close channel closed before WriteTo", "cancel-before", buf.Bytes(), err, panicked, pmsg)
		}
		if exhaustive {
			c.Inc("files_exhaustively_enumerated", 1)
		} else {
			c.Inc("files_sampled", 1)
		}
		c.Inc(fmt.Sprintf("jobs.%s", j.kind), 1)
		if isMerge {
			if j.kind == "merge-public" {
				known := false
				for _, b := range c12Buffers {
					known = known || b == j.bufSize
				}
				if known {
					c.Inc(fmt.Sprintf("merge_buffer.%d", j.bufSize), 1)
				} else {
					c.Inc("merge_buffer.other", 1)
				}
			}
		}
		c.Nontrivial(hashAny(j.kind, j.bufSize, j.mode, j.ref), points)
		if c.WantSample() {
			c.Sample(map[string]interface{}{"job": j.describe(), "fault_offsets": len(offs), "every_offset": exhaustive, "fault_kinds": "permanent failure at offset; single transient failure at offset (every 3rd); channel closed once offset bytes were received (merges)"})
		}
	}
}

func bufClass(j *c12Job) string {
	if j.kind != "merge-public" {
		return ""
	}
	return fmt.Sprintf(":buf%d", j.bufSize)
}

func c12Cancelled(c *runner.Ctx, j *c12Job, when, sig string, got []byte, err error, panicked bool, pmsg string) {
	switch {
	case panicked:
		c.Violate(sig+":panic:"+j.kind, when+": WriteTo panicked: "+pmsg, j.describe())
	case err == nil:
		if !bytes.Equal(got, j.ref) {
			c.Violate(sig+":silent-partial:"+j.kind, fmt.Sprintf("%s: WriteTo returned err=nil but the writer received %d bytes that differ from the complete %d-byte file (%s)", when, len(got), len(j.ref), diffAt(j.ref, got)), j.describe())
			return
		}
		c.Inc("cancel_outcome.complete_file", 1)
	case errors.Is(err, segment.ErrClosed) || err == segment.ErrClosed:
		c.Inc("cancel_outcome.ErrClosed", 1)
	default:
		c.Violate(sig+":other-error:"+j.kind, fmt.Sprintf("%s: WriteTo returned %v (neither ErrClosed nor success)", when, err), j.describe())
	}
}

// asynchronous cancellation: a goroutine closes the channel while the merge runs (race build)
func c12AsyncRun(c *runner.Ctx) {
	r := c.R
	w, err := c12World(c)
	if w = usable(c, w, err); w == nil {
		return
	}
	defer w.Close()
	for _, j := range c12Jobs(c, w) {
		if j.kind != "merge-public" && j.kind != "merge-mode" {
			continue
		}
		if !c12Reference(c, j) {
			continue
		}
		for k := 0; k < 60; k++ {
			ch := make(chan struct{})
			yields := r.Intn(400)
			var wg sync.WaitGroup
			wg.Add(1)
			go func() {
				defer wg.Done()
				for i := 0; i < yields; i++ {
					runtime.Gosched()
				}
				close(ch)
			}()
			var buf bytes.Buffer
			_, err, panicked, pmsg := j.run(&buf, ch)
			wg.Wait()
			c.Eval(1)
			c12Cancelled(c, j, fmt.Sprintf("close channel closed by another goroutine after %d yields", yields), "async-cancel", buf.Bytes(), err, panicked, pmsg)
		}
		c.Nontrivial(hashAny("async", j.kind, j.bufSize, j.ref), 60)
	}
}

func init() {
	register(&runner.Property{
		ID:    "C12",
		Level: "fault_enumeration",
		Rule: "cases = small worlds; per world two merges (public Merge with a buffer size from {0,1,2,7,64,4096,1MiB}; chunk-mode hook writing unbuffered) over random inputs/deletions and up to three Segment.WriteTo jobs (built, memory-loaded, file-loaded); per job the fault-free reference file is produced (and checked against the specification) and then EVERY byte offset of the file (files <=4 KiB; larger: structural boundaries +-2, the footer, a stride of n/300) is used as (1) the offset from which the writer fails permanently, (2) every 3rd offset: a single transient failure, (3) merges: the number of received bytes after which the close channel is closed from inside Write, plus a channel closed before the start; race-build phase: a goroutine closes the channel after 0..400 yields; " +
			"oracle: (1)(2) err != nil; (3) err == ErrClosed, or err == nil and the received bytes equal the complete reference file; anything else (other error, panic, nil with different bytes) is a violation; evaluations = fault points; non-trivial = every fault point of a distinct job (distinct by job kind, buffer, mode, reference bytes)",
		Assumptions: append([]string{"writers follow the io.Writer contract (n < len(p) only together with a non-nil error)"}, InputContract...),
		Phases: []runner.Phase{
			{Name: "offsets", Cases: cases(40, 1500), Run: c12Run},
			{Name: "async", Race: true, Cases: cases(16, 300), Run: c12AsyncRun},
		},
		Floors: func(string) map[string]int64 {
			return map[string]int64{"cancel_outcome.ErrClosed": 1000, "cancel_outcome.complete_file": 20, "fail_points.merge-public": 5000, "fail_points.persist-file": 1000, "files_exhaustively_enumerated": 50}
		},
	})
}
