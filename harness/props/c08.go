package props

import (
	"bytes"
	"fmt"
	"math/rand"
	"strings"

	"github.com/blevesearch/vellum/levenshtein"
	"github.com/blevesearch/vellum/regexp"
	segment "github.com/blugelabs/bluge_segment_api"
	ice "github.com/blugelabs/ice/v2"

	"verif/harness/gen"
	"verif/harness/runner"
)

// C08 — dictionaries enumerate exactly the live terms, in order, with true counts.

type prefixAutomaton struct{ p []byte }

// states: 0..len(p) = matched that many prefix bytes; len(p)+1 = dead
func (a *prefixAutomaton) Start() int                 { return 0 }
func (a *prefixAutomaton) IsMatch(s int) bool         { return s == len(a.p) }
func (a *prefixAutomaton) CanMatch(s int) bool        { return s <= len(a.p) }
func (a *prefixAutomaton) WillAlwaysMatch(s int) bool { return s == len(a.p) }
func (a *prefixAutomaton) Accept(s int, b byte) int {
	switch {
	case s == len(a.p):
		return s
	case s < len(a.p) && a.p[s] == b:
		return s + 1
	}
	return len(a.p) + 1
}

type anyAutomaton struct{}

func (anyAutomaton) Start() int               { return 0 }
func (anyAutomaton) IsMatch(int) bool         { return true }
func (anyAutomaton) CanMatch(int) bool        { return true }
func (anyAutomaton) WillAlwaysMatch(int) bool { return true }
func (anyAutomaton) Accept(int, byte) int     { return 0 }

func autoMatches(a segment.Automaton, term string) bool {
	if a == nil {
		return true
	}
	s := a.Start()
	for i := 0; i < len(term); i++ {
		s = a.Accept(s, term[i])
	}
	return a.IsMatch(s)
}

var levBuilder *levenshtein.LevenshteinAutomatonBuilder

func genAutomaton(r *rand.Rand, terms []string) (segment.Automaton, string) {
	sample := "t1"
	if len(terms) > 0 {
		sample = terms[r.Intn(len(terms))]
	}
	switch r.Intn(7) {
	case 0, 1, 2:
		return nil, "none"
	case 3:
		p := sample
		if len(p) > 0 {
			p = p[:1+r.Intn(len(p))]
			if r.Intn(3) == 0 {
				p = p[:len(p)-1]
			}
		}
		return &prefixAutomaton{[]byte(p)}, fmt.Sprintf("prefix(%q)", p)
	case 4:
		return anyAutomaton{}, "any"
	case 5:
		pats := []string{"t[0-3].*", "u-.*", ".*1", "t.", ".*x+", "(t1|t2)x*"}
		pat := pats[r.Intn(len(pats))]
		re, err := regexp.New(pat)
		if err != nil {
			return nil, "none"
		}
		return re, "regexp(" + pat + ")"
	default:
		if levBuilder == nil {
			var err error
			levBuilder, err = levenshtein.NewLevenshteinAutomatonBuilder(1, false)
			if err != nil {
				return nil, "none"
			}
		}
		q := "t1"
		if r.Intn(2) == 0 && len(sample) > 0 && len(sample) < 12 && isASCII(sample) {
			q = sample
		}
		dfa, err := levBuilder.BuildDfa(q, 1)
		if err != nil {
			return nil, "none"
		}
		return dfa, fmt.Sprintf("levenshtein(%q,1)", q)
	}
}

func isASCII(s string) bool {
	for i := 0; i < len(s); i++ {
		if s[i] >= 0x80 || s[i] < 0x20 {
			return false
		}
	}
	return true
}

// genBound draws nil or a non-empty key: an existing term, something between
// two terms, a single byte, a prefix.
func genBound(r *rand.Rand, terms []string) []byte {
	mk := func() []byte {
		base := "t3"
		if len(terms) > 0 {
			base = terms[r.Intn(len(terms))]
		}
		switch r.Intn(6) {
		case 0:
			return []byte(base)
		case 1:
			return append([]byte(base), 0)
		case 2:
			if len(base) > 1 {
				return []byte(base[:len(base)-1])
			}
			return []byte(base)
		case 3:
			return []byte{byte(r.Intn(256))}
		case 4:
			return append([]byte(base), byte(r.Intn(256)))
		default:
			return []byte(fmt.Sprintf("t%d", r.Intn(9)))
		}
	}
	if r.Intn(4) == 0 {
		return nil
	}
	b := mk()
	if len(b) == 0 { // bounds are nil or non-empty (input contract)
		return []byte{0}
	}
	return b
}

func c08Run(c *runner.Ctx) {
	r := c.R
	var w *gen.World
	var err error
	if c.Idx%150 == 0 {
		w, err = gen.GenWorld(r, c.TmpDir, fmt.Sprintf("w%d", c.Idx), gen.WorldOpts{Jumbo: true})
	} else {
		w, err = gen.GenWorld(r, c.TmpDir, fmt.Sprintf("w%d", c.Idx), gen.WorldOpts{MaxDocs: 120})
	}
	if w = usable(c, w, err); w == nil {
		return
	}
	defer w.Close()
	for si, sg := range w.Segs {
		fields := append([]string{}, sg.X.Fields...)
		fields = append(fields, "no-such-field", "")
		var prevPL segment.PostingsList // carried across fields: a list used on a known field is re-used on an unknown one
		for _, f := range fields {
			known := sg.X.HasField(f)
			terms := sg.X.Terms(f) // sorted
			var d segment.Dictionary
			var err error
			panicked, pmsg, stack := runner.Try(func() { d, err = sg.S.Dictionary(f) })
			kn := map[bool]string{true: "known-field", false: "unknown-field"}[known]
			base := func() string {
				return fmt.Sprintf("segment %d kind=%s mode=%d docs=%d field=%q (%s) live terms=%d", si, sg.Kind, sg.Mode, len(sg.X.Docs), f, kn, len(terms))
			}
			if panicked || err != nil || d == nil {
				c.Eval(1)
				c.Violate("dictionary:"+kn, fmt.Sprintf("Dictionary(%q) failed: panic=%v %s err=%v", f, panicked, pmsg, err), stack+"\n"+base())
				continue
			}
			// which encodings does the full enumeration meet, in which order
			encSeq := ""
			for _, t := range terms {
				pl, err := d.PostingsList([]byte(t), nil, nil)
				if err != nil {
					continue
				}
				if one, _, _ := ice.VerifPostingsInfo(pl); one {
					encSeq += "1"
				} else {
					encSeq += "g"
				}
			}
			mixed := strings.Contains(encSeq, "1g") || strings.Contains(encSeq, "g1")
			nEnum := 5
			for k := 0; k < nEnum; k++ {
				var a segment.Automaton
				an := "none"
				var start, end []byte
				if k > 0 {
					a, an = genAutomaton(r, terms)
					start, end = genBound(r, terms), genBound(r, terms)
					if start != nil && end != nil && bytes.Compare(start, end) > 0 {
						start, end = end, start
					}
					if k == 1 && len(terms) > 0 { // degenerate range start == end on an existing term
						start = []byte(terms[r.Intn(len(terms))])
						if len(start) == 0 {
							start = []byte{0}
						}
						end = append([]byte{}, start...)
						a, an = nil, "none"
					}
				}
				var want []string
				for _, t := range terms {
					if start != nil && bytes.Compare([]byte(t), start) < 0 {
						continue
					}
					if end != nil && bytes.Compare([]byte(t), end) >= 0 {
						continue
					}
					if !autoMatches(a, t) {
						continue
					}
					want = append(want, fmt.Sprintf("%q:%d", t, len(sg.X.DocsOf(f, t))))
				}
				var got []string
				var ierr error
				panicked, pmsg, stack := runner.Try(func() {
					it := d.Iterator(a, start, end)
					for {
						e, err := it.Next()
						if err != nil {
							ierr = err
							return
						}
						if e == nil {
							// nil stays nil
							if e2, err2 := it.Next(); e2 != nil || err2 != nil {
								ierr = fmt.Errorf("Next after the end returned (%v,%v)", e2, err2)
							}
							return
						}
						got = append(got, fmt.Sprintf("%q:%d", e.Term(), e.Count()))
						if len(got) > len(terms)+5 {
							ierr = fmt.Errorf("iterator does not terminate")
							return
						}
					}
				})
				c.Eval(1)
				desc := func() string {
					return fmt.Sprintf("%s\nrange start=%q end=%q automaton=%s encodings met by a full enumeration (1=1-hit,g=general): %s\nexpected=%s\nobserved=%s", base(), start, end, an, clipS(encSeq, 200), clipS(fmt.Sprint(want), 1500), clipS(fmt.Sprint(got), 1500))
				}
				rk := "full"
				switch {
				case start != nil && end != nil && bytes.Equal(start, end):
					rk = "start==end"
				case start != nil || end != nil:
					rk = "range"
				}
				if a != nil {
					rk += "+automaton"
				}
				switch {
				case panicked:
					c.Violate("iterate-panic:"+kn+":"+runner.TopIceFrame(stack), fmt.Sprintf("dictionary iteration panicked: %s", pmsg), stack+"\n"+desc())
					continue
				case ierr != nil:
					c.Violate("iterate-error:"+kn, fmt.Sprintf("dictionary iteration failed: %v", ierr), desc())
					continue
				case fmt.Sprint(got) != fmt.Sprint(want):
					kind := "terms"
					if len(got) == len(want) {
						same := true
						for i := range got {
							if got[i][:strings.LastIndex(got[i], ":")] != want[i][:strings.LastIndex(want[i], ":")] {
								same = false
							}
						}
						if same {
							kind = "counts"
						}
					}
					c.Violate("enumeration:"+kind+":"+rk, fmt.Sprintf("dictionary enumeration (%s) differs from the specification: observed %s expected %s", rk, clipS(fmt.Sprint(got), 200), clipS(fmt.Sprint(want), 200)), desc())
					continue
				}
				c.Inc("enumerations."+rk, 1)
				if an != "none" {
					c.Inc("automaton."+strings.SplitN(an, "(", 2)[0], 1)
				}
				if (mixed && (start == nil && end == nil)) || ((start != nil || end != nil || a != nil) && len(want) > 0) {
					c.Nontrivial(hashAny(sg.Kind, f, fmt.Sprint(terms), string(start), string(end), an, encSeq), 1)
					if c.WantSample() && len(terms) < 12 && len(terms) > 2 {
						c.Sample(map[string]interface{}{"segment_kind": sg.Kind, "field": f, "live_terms": terms, "encodings": encSeq, "start": string(start), "end": string(end), "automaton": an, "entries": want})
					}
				}
			}
			// two iterators of the SAME Dictionary object alive at once, advanced alternately: each enumerates its own range
			if len(terms) >= 2 {
				mid := []byte(terms[len(terms)/2])
				var want1, want2 []string
				for _, t := range terms {
					e := fmt.Sprintf("%q:%d", t, len(sg.X.DocsOf(f, t)))
					want1 = append(want1, e)
					if bytes.Compare([]byte(t), mid) >= 0 {
						want2 = append(want2, e)
					}
				}
				var got1, got2 []string
				var ierr error
				panicked, pmsg, stack := runner.Try(func() {
					it1 := d.Iterator(nil, nil, nil)
					pull := func(it segment.DictionaryIterator, into *[]string) bool {
						e, err := it.Next()
						if err != nil {
							ierr = err
							return false
						}
						if e == nil {
							return false
						}
						*into = append(*into, fmt.Sprintf("%q:%d", e.Term(), e.Count()))
						return len(*into) <= len(terms)+5
					}
					more1 := pull(it1, &got1)
					it2 := d.Iterator(nil, mid, nil)
					more2 := true
					for (more1 || more2) && ierr == nil {
						if more2 {
							more2 = pull(it2, &got2)
						}
						if more1 {
							more1 = pull(it1, &got1)
						}
					}
				})
				c.Eval(1)
				switch {
				case panicked:
					c.Violate("interleaved-iterators:panic:"+kn+":"+runner.TopIceFrame(stack), "two live iterators of one Dictionary: panic: "+pmsg, stack+"\n"+base())
				case ierr != nil:
					c.Violate("interleaved-iterators:error:"+kn, fmt.Sprintf("two live iterators of one Dictionary: %v", ierr), base())
				case fmt.Sprint(got1) != fmt.Sprint(want1) || fmt.Sprint(got2) != fmt.Sprint(want2):
					c.Violate("interleaved-iterators:enumeration:"+kn, fmt.Sprintf("two live iterators of one Dictionary advanced alternately: full scan returned %s (expected %s), scan from %q returned %s (expected %s)",
						clipS(fmt.Sprint(got1), 150), clipS(fmt.Sprint(want1), 150), mid, clipS(fmt.Sprint(got2), 150), clipS(fmt.Sprint(want2), 150)), base())
				default:
					c.Inc("interleaved_iterator_pairs", 1)
				}
			}
			if mixed {
				c.Inc("fields_mixing_1hit_and_general", 1)
			}
			if strings.Contains(encSeq, "1g") {
				c.Inc("fields_general_after_1hit", 1)
			}
			// Contains / PostingsList agree with the set
			probe := []string{"absent-term", ""}
			for k := 0; k < 4 && len(terms) > 0; k++ {
				probe = append(probe, terms[r.Intn(len(terms))])
			}
			// history: a DocsMatchingTerms call that ends on an existing term precedes the lookups (library-internal
			// shared state such as the empty-list sentinel must not carry anything over into later dictionary lookups)
			if len(terms) > 0 {
				pt := terms[r.Intn(len(terms))]
				if _, derr := sg.S.DocsMatchingTerms([]segment.Term{sTerm{f, []byte(pt)}}); derr != nil {
					c.Note("DocsMatchingTerms failed (C18's business): " + derr.Error())
				}
			}
			// the lookups alternate between a fresh list and re-using the previous probe's list as prealloc
			// (present 1-hit / general term followed by an absent one and vice versa)
			r.Shuffle(len(probe), func(i, j int) { probe[i], probe[j] = probe[j], probe[i] })
			for pi, t := range probe {
				c.Eval(1)
				present := len(sg.X.DocsOf(f, t)) > 0
				var has bool
				var cnt uint64
				var cerr, perr error
				panicked, pmsg, stack := runner.Try(func() {
					has, cerr = d.Contains([]byte(t))
					var pl segment.PostingsList
					var pre segment.PostingsList
					if pi%2 == 1 {
						pre = prevPL
					}
					pl, perr = d.PostingsList([]byte(t), nil, pre)
					if perr == nil {
						prevPL = pl
						cnt = pl.Count()
						// an empty / unknown list must also hand out a working iterator
						it, ierr := pl.Iterator(true, true, true, nil)
						if ierr != nil {
							perr = ierr
						} else if !present {
							if p, nerr := it.Next(); p != nil || nerr != nil {
								perr = fmt.Errorf("iterator of an absent term returned (%v,%v)", p, nerr)
							}
						}
					}
				})
				tk := map[bool]string{true: "present-term", false: "absent-term"}[present]
				switch {
				case panicked:
					c.Violate("lookup-panic:"+kn+":"+tk+":"+runner.TopIceFrame(stack), fmt.Sprintf("Contains/PostingsList(%q) panicked: %s", t, pmsg), stack+"\n"+base())
				case cerr != nil || perr != nil:
					c.Violate("lookup-error:"+kn+":"+tk, fmt.Sprintf("Contains/PostingsList(%q) returned an error: %v %v", t, cerr, perr), base())
				case has != present:
					c.Violate("contains:"+tk, fmt.Sprintf("Contains(%q)=%v but the term is %s", t, has, tk), base())
				case int(cnt) != len(sg.X.DocsOf(f, t)):
					c.Violate("postingslist-count:"+tk, fmt.Sprintf("PostingsList(%q).Count()=%d, expected %d", t, cnt, len(sg.X.DocsOf(f, t))), base())
				default:
					c.Inc("lookups."+kn+"."+tk, 1)
				}
			}
		}
	}
}

func init() {
	register(&runner.Property{
		ID:    "C08",
		Level: "exploration",
		Rule: "cases = worlds (one jumbo); per (segment, field incl. two unknown names): 5 enumerations — full, a degenerate start==end range on an existing term, and ranges with nil / existing-term / between-term / single-byte bounds (start<=end, non-empty) combined with no automaton, a prefix automaton, an always-match automaton, vellum regexp and levenshtein automata (evaluated on the model side by running the same automaton over every live term) — each compared entry by entry (term, count) with the specification, nil must stay nil; plus Contains / PostingsList(+Count, Iterator) for present, absent and empty terms; " +
			"evaluations = enumerations + lookups; non-trivial = full enumeration meeting both 1-hit and general encodings, or a non-empty result under a bound/automaton; distinct by (kind, field, live terms, bounds, automaton, encoding sequence)",
		Assumptions: append([]string{"range bounds are nil or non-empty with start <= end"}, InputContract...),
		Phases:      []runner.Phase{{Name: "enumerate", Cases: cases(1500, 40000), Run: c08Run}},
		Floors: func(string) map[string]int64 {
			return map[string]int64{"fields_general_after_1hit": 100, "enumerations.start==end": 500, "automaton.regexp": 200, "automaton.levenshtein": 200, "automaton.prefix": 200, "lookups.unknown-field.absent-term": 500}
		},
	})
}
