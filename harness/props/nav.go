package props

import (
	"fmt"
	"math"
	"math/rand"
	"strings"

	"github.com/RoaringBitmap/roaring"
	segment "github.com/blugelabs/bluge_segment_api"
	ice "github.com/blugelabs/ice/v2"

	"verif/harness/gen"
	"verif/harness/model"
	"verif/harness/observe"
	"verif/harness/runner"
)

// navigation of one postings list against the specification (shared by C05,
// C13, C09).

type navReq struct {
	sg      *gen.Seg
	dict    segment.Dictionary // dictionary of field on sg (may be reused by the caller)
	field   string
	term    string
	except  *roaring.Bitmap
	fl      [3]bool // freq, norm, locs
	prePL   segment.PostingsList
	prePI   segment.PostingsIterator
	havePL  segment.PostingsList // if set: iterate this existing list again instead of looking it up
	replace bool    // ReplaceActual with a subset right after creation (general lists only)
	stopAt  float64 // fraction of the sequence to execute (1 = all); <1 leaves a half-consumed iterator
	sig     string  // signature prefix for violations
}

type navStats struct {
	steps, advances                         int
	skipWithin, skipAcross, skipExcluded    int
	oneHit, general, empty, replaced, atEnd bool
	chunksInList                            int
	trace                                   []string
}

func flagsStr(fl [3]bool) string {
	s := ""
	for i, n := range []string{"freq", "norm", "locs"} {
		if fl[i] {
			s += n + "+"
		}
	}
	if s == "" {
		return "none"
	}
	return strings.TrimSuffix(s, "+")
}

// navigate performs PostingsList(+Count) -> Iterator -> [ReplaceActual] ->
// Next/Advance sequence and compares every answer with the model. It returns
// the objects for reuse.
func navigate(c *runner.Ctx, r *rand.Rand, q navReq) (pl segment.PostingsList, pi segment.PostingsIterator, st navStats, ok bool) {
	x := q.sg.X
	full := x.DocsOf(q.field, q.term)
	var live []int
	for _, d := range full {
		if q.except == nil || !q.except.Contains(uint32(d)) {
			live = append(live, d)
		}
	}
	ctxd := func() string {
		ex := "nil"
		if q.except != nil {
			ex = clipS(q.except.String(), 200)
		}
		return fmt.Sprintf("segment kind=%s mode=%d docs=%d field=%q term=%q flags=%s except=%s reuse(pl=%v,pi=%v) replaceActual=%v\nfull list=%v\nlive=%v\nsteps so far: %s",
			q.sg.Kind, q.sg.Mode, len(x.Docs), q.field, q.term, flagsStr(q.fl), ex, q.prePL != nil, q.prePI != nil, st.replaced, clipInts(full, 80), clipInts(live, 80), strings.Join(st.trace, " "))
	}
	viol := func(kind, msg string) {
		c.Violate(q.sig+kind, msg, ctxd())
	}
	var err error
	panicked, pmsg, stack := runner.Try(func() {
		if q.havePL != nil {
			pl = q.havePL
			return
		}
		pl, err = q.dict.PostingsList([]byte(q.term), q.except, q.prePL)
	})
	if panicked {
		viol("panic:PostingsList:"+runner.TopIceFrame(stack), "PostingsList panicked: "+pmsg)
		return nil, nil, st, false
	}
	if err != nil || pl == nil {
		viol("error:PostingsList", fmt.Sprintf("PostingsList returned error %v", err))
		return nil, nil, st, false
	}
	oneHit, chunkSize, _ := ice.VerifPostingsInfo(pl)
	st.oneHit = oneHit
	st.empty = len(full) == 0
	st.general = !oneHit && !st.empty
	if chunkSize > 0 {
		ch := map[uint64]bool{}
		for _, d := range full {
			ch[uint64(d)/chunkSize] = true
		}
		st.chunksInList = len(ch)
	}
	var cnt uint64
	panicked, pmsg, stack = runner.Try(func() { cnt = pl.Count() })
	if panicked {
		viol("panic:Count:"+runner.TopIceFrame(stack), "PostingsList.Count panicked: "+pmsg)
		return pl, nil, st, false
	}
	if int(cnt) != len(live) {
		viol("count", fmt.Sprintf("PostingsList.Count()=%d, non-excluded postings=%d", cnt, len(live)))
		return pl, nil, st, false
	}
	panicked, pmsg, stack = runner.Try(func() { pi, err = pl.Iterator(q.fl[0], q.fl[1], q.fl[2], q.prePI) })
	if panicked {
		viol("panic:Iterator:"+runner.TopIceFrame(stack), "PostingsList.Iterator panicked: "+pmsg)
		return pl, nil, st, false
	}
	if err != nil || pi == nil {
		viol("error:Iterator", fmt.Sprintf("Iterator returned error %v", err))
		return pl, nil, st, false
	}
	if q.replace && st.general && len(live) > 0 {
		if opt, isOpt := pi.(segment.OptimizablePostingsIterator); isOpt {
			sub := roaring.New()
			var nl []int
			for _, d := range live {
				if r.Intn(3) > 0 {
					sub.Add(uint32(d))
					nl = append(nl, d)
				}
			}
			opt.ReplaceActual(sub)
			live = nl
			st.replaced = true
		}
	}
	if st.general && !st.replaced {
		var ic uint64
		panicked, pmsg, stack = runner.Try(func() { ic = pi.Count() })
		if panicked {
			viol("panic:IteratorCount:"+runner.TopIceFrame(stack), "PostingsIterator.Count panicked: "+pmsg)
			return pl, pi, st, false
		}
		if int(ic) != len(live) {
			viol("iterator-count", fmt.Sprintf("PostingsIterator.Count()=%d, non-excluded postings=%d", ic, len(live)))
			return pl, pi, st, false
		}
	}
	// the sequence
	total := len(live) + 3
	if q.stopAt < 1 {
		total = int(float64(total) * q.stopAt)
	}
	pos := -1       // index into live of the last returned posting
	lastRet := -1   // last returned document number
	prevTarget := 0 // targets are non-decreasing
	numDocs := len(x.Docs)
	fullIdx := map[int]int{}
	for i, d := range full {
		fullIdx[d] = i
	}
	for step := 0; step < total; step++ {
		useAdvance := r.Intn(2) == 0
		var target int
		if useAdvance {
			lo := prevTarget
			if lastRet+1 > lo {
				lo = lastRet + 1
			}
			switch r.Intn(6) {
			case 0:
				target = lo
			case 1:
				target = lo + 1 + r.Intn(3)
			case 2:
				cs := int(chunkSize)
				if cs <= 0 || cs > numDocs {
					cs = 1 + numDocs/4
				}
				target = lo + cs*(1+r.Intn(2)) + r.Intn(2)
			case 3:
				// jump to (or just before/after) a later live posting
				if pos+1 < len(live) {
					j := pos + 1 + r.Intn(len(live)-pos-1)
					target = live[j] + r.Intn(3) - 1
				} else {
					target = lo + r.Intn(5)
				}
			case 4:
				target = numDocs + r.Intn(10) // beyond the end
			default:
				target = lo + r.Intn(1+numDocs/3+1)
			}
			if target < lo {
				target = lo
			}
			prevTarget = target
		}
		// model answer
		np := pos + 1
		if useAdvance {
			for np < len(live) && live[np] < target {
				np++
			}
		}
		var p segment.Posting
		var perr error
		opName := "N"
		if useAdvance {
			opName = fmt.Sprintf("A(%d)", target)
			st.advances++
		}
		panicked, pmsg, stack = runner.Try(func() {
			if useAdvance {
				p, perr = pi.Advance(uint64(target))
			} else {
				p, perr = pi.Next()
			}
		})
		st.steps++
		if panicked {
			st.trace = append(st.trace, opName+"=panic")
			viol("panic:"+map[bool]string{true: "Advance", false: "Next"}[useAdvance]+":"+runner.TopIceFrame(stack), fmt.Sprintf("step %d %s panicked: %s", step, opName, pmsg))
			return pl, pi, st, false
		}
		if perr != nil {
			st.trace = append(st.trace, opName+"=err")
			viol("error:step", fmt.Sprintf("step %d %s returned error: %v", step, opName, perr))
			return pl, pi, st, false
		}
		if np >= len(live) {
			if p != nil {
				st.trace = append(st.trace, fmt.Sprintf("%s=%d", opName, p.Number()))
				kind := "past-end"
				if pos >= len(live) {
					kind = "nil-does-not-stay-nil"
				}
				viol("nav:"+kind, fmt.Sprintf("step %d %s returned document %d, expected nil (end of list)", step, opName, p.Number()))
				return pl, pi, st, false
			}
			st.trace = append(st.trace, opName+"=nil")
			pos = len(live)
			st.atEnd = true
			continue
		}
		wantDoc := live[np]
		if p == nil {
			st.trace = append(st.trace, opName+"=nil")
			viol("nav:early-nil", fmt.Sprintf("step %d %s returned nil, expected document %d", step, opName, wantDoc))
			return pl, pi, st, false
		}
		st.trace = append(st.trace, fmt.Sprintf("%s=%d", opName, p.Number()))
		if len(st.trace) > 60 {
			st.trace = st.trace[len(st.trace)-60:]
		}
		if int(p.Number()) != wantDoc {
			viol("nav:wrong-doc", fmt.Sprintf("step %d %s returned document %d, expected %d", step, opName, p.Number(), wantDoc))
			return pl, pi, st, false
		}
		xp := x.Docs[wantDoc].Terms[q.field][q.term]
		if q.fl[0] || q.fl[1] || q.fl[2] {
			if p.Frequency() != xp.Freq {
				viol("payload:freq", fmt.Sprintf("step %d %s document %d: frequency %d, expected %d", step, opName, wantDoc, p.Frequency(), xp.Freq))
				return pl, pi, st, false
			}
			if math.Float32bits(float32(p.Norm())) != math.Float32bits(xp.Norm) {
				viol("payload:norm", fmt.Sprintf("step %d %s document %d: norm bits %08x, expected %08x", step, opName, wantDoc, math.Float32bits(float32(p.Norm())), math.Float32bits(xp.Norm)))
				return pl, pi, st, false
			}
		}
		if q.fl[2] {
			got := observe.Locs(p)
			if fmt.Sprint(got) != fmt.Sprint(xp.Locs) {
				viol("payload:locations", fmt.Sprintf("step %d %s document %d: locations %v, expected %v", step, opName, wantDoc, got, xp.Locs))
				return pl, pi, st, false
			}
		}
		// evidence: what was skipped
		if useAdvance && chunkSize > 0 {
			from := -1
			if lastRet >= 0 {
				from = fullIdx[lastRet]
			}
			to := fullIdx[wantDoc]
			skipped := to - from - 1
			if skipped > 0 {
				prevChunk := int64(-1)
				if lastRet >= 0 {
					prevChunk = int64(uint64(lastRet) / chunkSize)
				}
				if prevChunk != int64(uint64(wantDoc)/chunkSize) {
					st.skipAcross++
				} else {
					st.skipWithin++
				}
				if q.except != nil || st.replaced {
					for k := from + 1; k < to; k++ {
						if q.except != nil && q.except.Contains(uint32(full[k])) || st.replaced {
							st.skipExcluded++
							break
						}
					}
				}
			}
		}
		pos = np
		lastRet = wantDoc
	}
	return pl, pi, st, true
}

func clipInts(xs []int, n int) string {
	if len(xs) <= n {
		return fmt.Sprint(xs)
	}
	return fmt.Sprint(xs[:n]) + fmt.Sprintf("…(%d total)", len(xs))
}

// genExcept draws an exclusion bitmap for a list on a segment.
func genExcept(r *rand.Rand, numDocs int, full []int, chunkSize uint64) *roaring.Bitmap {
	switch r.Intn(7) {
	case 0, 1:
		return nil
	case 2: // random over the segment
		bm := roaring.New()
		for i := 0; i < numDocs; i++ {
			if r.Intn(3) == 0 {
				bm.Add(uint32(i))
			}
		}
		return bm
	case 3: // whole chunks
		bm := roaring.New()
		cs := chunkSize
		if cs == 0 || cs > uint64(numDocs) {
			cs = uint64(1 + numDocs/5)
		}
		nch := uint64(numDocs)/cs + 1
		for ch := uint64(0); ch < nch; ch++ {
			if r.Intn(2) == 0 {
				bm.AddRange(ch*cs, min64((ch+1)*cs, uint64(numDocs)))
			}
		}
		return bm
	case 4: // everything
		bm := roaring.New()
		if numDocs > 0 {
			bm.AddRange(0, uint64(numDocs))
		}
		return bm
	case 5: // most of the list's own documents
		bm := roaring.New()
		for _, d := range full {
			if r.Intn(4) > 0 {
				bm.Add(uint32(d))
			}
		}
		return bm
	default: // a few of the list's documents
		bm := roaring.New()
		for _, d := range full {
			if r.Intn(5) == 0 {
				bm.Add(uint32(d))
			}
		}
		return bm
	}
}

func min64(a, b uint64) uint64 {
	if a < b {
		return a
	}
	return b
}

var _ = model.All
