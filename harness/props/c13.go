package props

import (
	"fmt"
	"sort"

	"github.com/RoaringBitmap/roaring"

	segment "github.com/blugelabs/bluge_segment_api"
	ice "github.com/blugelabs/ice/v2"

	"verif/harness/gen"
	"verif/harness/model"
	"verif/harness/runner"
)

// C13 — reusing iterators, postings lists and readers never changes results.
// Every lookup of a sequence may pass any PostingsList / PostingsIterator
// produced earlier (other segment, other encoding, half-consumed, the shared
// empty singletons) as prealloc, keeps one Dictionary per (segment, field),
// one DocumentValueReader per segment and interleaves stored-field visits and
// dictionary iterations. Oracle: the specification (what fresh objects return).

type plRec struct {
	pl   segment.PostingsList
	kind string // 1hit | general | empty
	seg  int
	// what the list stands for (to iterate it again later: a list stays valid while only its ITERATOR is recycled)
	field, term string
	except      *roaring.Bitmap
}
type piRec struct {
	pi   segment.PostingsIterator
	kind string
	seg  int
	half bool
}

func c13Run(c *runner.Ctx) {
	r := c.R
	w, _, err := c05World(c)
	if w = usable(c, w, err); w == nil {
		return
	}
	defer w.Close()
	segs := w.Segs
	nSeq := 6
	for seq := 0; seq < nSeq; seq++ {
		var pls []plRec
		var pis []piRec
		dicts := map[string]segment.Dictionary{}
		dvrs := map[int]segment.DocumentValueReader{}
		dvFields := map[int][]string{}
		type ft struct{ f, t string }
		cands := make([][]ft, len(segs))
		for i, sg := range segs {
			for _, f := range sg.X.Fields {
				for _, t := range sg.X.Terms(f) {
					cands[i] = append(cands[i], ft{f, t})
				}
			}
		}
		steps := 30 + r.Intn(171)
		var log []string
		for step := 0; step < steps; step++ {
			si := r.Intn(len(segs))
			sg := segs[si]
			switch op := r.Intn(11); {
			case op == 10: // iterate an OLD list again: it must still answer as when it was created
				if len(pls) == 0 {
					continue
				}
				pr := pls[r.Intn(len(pls))]
				if pr.pl == nil || pr.kind == "empty" {
					continue
				}
				osg := segs[pr.seg]
				q := navReq{sg: osg, field: pr.field, term: pr.term, except: pr.except, havePL: pr.pl, stopAt: 1, sig: "reuse:old-list:",
					fl: [3]bool{r.Intn(2) == 0, r.Intn(2) == 0, r.Intn(2) == 0}}
				if len(pis) > 0 && r.Intn(2) == 0 {
					k := r.Intn(len(pis))
					q.prePI = pis[k].pi
					pis = append(pis[:k], pis[k+1:]...) // handed over
				}
				log = append(log, fmt.Sprintf("R(seg%d,%q,%q,%s)", pr.seg, pr.field, pr.term, flagsStr(q.fl)))
				_, pi, _, ok := navigate(c, r, q)
				c.Eval(1)
				if !ok {
					c.Inc("sequences_failed", 1)
					return
				}
				if pi != nil {
					pis = append(pis, piRec{pi, pr.kind, pr.seg, false})
				}
				c.Inc("old_lists_iterated_again", 1)
			case op < 6: // postings lookup with reuse
				var q navReq
				q.sg = sg
				q.sig = "reuse:"
				if len(cands[si]) == 0 || r.Intn(10) == 0 {
					q.field, q.term = "no-such-field", "x"
					if r.Intn(2) == 0 {
						q.field = sg.X.Fields[r.Intn(len(sg.X.Fields))]
						q.term = "absent-term"
					}
				} else {
					p := cands[si][r.Intn(len(cands[si]))]
					q.field, q.term = p.f, p.t
				}
				dk := fmt.Sprintf("%d/%s", si, q.field)
				d := dicts[dk]
				if d == nil || r.Intn(8) == 0 {
					var err error
					d, err = sg.S.Dictionary(q.field)
					if err != nil {
						c.Violate("reuse:error:Dictionary", fmt.Sprintf("Dictionary(%q): %v", q.field, err), "")
						return
					}
					dicts[dk] = d
				} else {
					c.Inc("dictionary_reused", 1)
				}
				q.dict = d
				full := sg.X.DocsOf(q.field, q.term)
				cs := uint64(sg.Mode)
				if cs > 1024 {
					cs = 0
				}
				q.except = genExcept(r, len(sg.X.Docs), full, cs)
				q.fl = [3]bool{r.Intn(2) == 0, r.Intn(2) == 0, r.Intn(2) == 0}
				q.replace = r.Intn(8) == 0
				q.stopAt = 1
				if r.Intn(3) == 0 {
					q.stopAt = r.Float64()
				}
				var prePLKind, prePIKind string
				prePLSeg, prePISeg := -1, -1
				// an object handed over as prealloc leaves the pool: from now on it IS the new lookup's object
				if len(pls) > 0 && r.Intn(5) > 0 {
					k := r.Intn(len(pls))
					p := pls[k]
					q.prePL, prePLKind, prePLSeg = p.pl, p.kind, p.seg
					pls = append(pls[:k], pls[k+1:]...)
				}
				if len(pis) > 0 && r.Intn(5) > 0 {
					k := r.Intn(len(pis))
					p := pis[k]
					q.prePI, prePIKind, prePISeg = p.pi, p.kind, p.seg
					if p.half {
						prePIKind += "-half"
					}
					pis = append(pis[:k], pis[k+1:]...)
				}
				log = append(log, fmt.Sprintf("L(seg%d,%q,%q,%s,pl<-%s,pi<-%s)", si, q.field, q.term, flagsStr(q.fl), prePLKind, prePIKind))
				pl, pi, st, ok := navigate(c, r, q)
				c.Eval(1)
				if !ok {
					c.Inc("sequences_failed", 1)
					if c.Verbose {
						fmt.Println("sequence so far:", log)
					}
					return
				}
				kind := "general"
				if st.oneHit {
					kind = "1hit"
				} else if st.empty {
					kind = "empty"
				}
				// a replaced iterator shares the caller's bitmap; keep it out of the pool only if ReplaceActual was used on it
				if pl != nil {
					pls = append(pls, plRec{pl, kind, si, q.field, q.term, q.except})
				}
				if pi != nil && step%3 == 1 && !st.replaced {
					// the caller is done with this iterator and closes it (it is not used again); the LIST it came from stays in use
					pi.Close()
					c.Inc("iterators_closed_list_kept", 1)
				} else if pi != nil {
					pis = append(pis, piRec{pi, kind, si, q.stopAt < 1})
				}
				if len(pls) > 12 {
					pls = pls[1:]
				}
				if len(pis) > 12 {
					pis = pis[1:]
				}
				nontrivial := false
				if q.prePL != nil {
					c.Inc("reuse_pl."+prePLKind+"->"+kind, 1)
					if prePLKind != kind || prePLSeg != si {
						nontrivial = true
					}
				}
				if q.prePI != nil {
					c.Inc("reuse_pi."+prePIKind+"->"+kind, 1)
					if prePIKind != kind || prePISeg != si {
						nontrivial = true
					}
				}
				if (q.prePL != nil && prePLSeg != si) || (q.prePI != nil && prePISeg != si) {
					c.Inc("reuse_across_segments", 1)
				}
				if nontrivial {
					c.Nontrivial(hashAny(c.Idx, seq, step), 1)
				}
				_ = ice.Version
			case op < 7: // stored fields (recycles the pooled visit context across segments)
				if len(sg.X.Docs) == 0 {
					continue
				}
				dn := r.Intn(len(sg.X.Docs))
				var got []model.XStored
				err := sg.S.VisitStoredFields(uint64(dn), func(f string, v []byte) bool {
					got = append(got, model.XStored{Field: f, Val: string(v)})
					return true
				})
				c.Eval(1)
				if err != nil || fmt.Sprintf("%q", got) != fmt.Sprintf("%q", sg.X.Docs[dn].Stored) {
					c.Violate("reuse:stored", fmt.Sprintf("VisitStoredFields(%d) on segment %d (%s) interleaved with other lookups returned %q (err=%v), expected %q", dn, si, sg.Kind, got, err, sg.X.Docs[dn].Stored), fmt.Sprint(log))
					return
				}
				c.Inc("stored_visits", 1)
			case op < 9: // doc values with one reader per segment kept across the whole sequence
				if len(sg.X.Docs) == 0 {
					continue
				}
				dvr := dvrs[si]
				if dvr == nil {
					fs := append([]string{}, sg.X.Fields...)
					r.Shuffle(len(fs), func(i, j int) { fs[i], fs[j] = fs[j], fs[i] })
					fs = append(fs[:1+r.Intn(len(fs))], "no-such-field")
					var err error
					dvr, err = sg.S.DocumentValueReader(fs)
					if err != nil {
						c.Violate("reuse:dv-reader-error", err.Error(), "")
						return
					}
					dvrs[si] = dvr
					dvFields[si] = fs
				} else {
					c.Inc("dv_reader_reused", 1)
				}
				dn := r.Intn(len(sg.X.Docs))
				got := map[string][]string{}
				var order []string
				err := dvr.VisitDocumentValues(uint64(dn), func(f string, t []byte) {
					if _, ok := got[f]; !ok {
						order = append(order, f)
					}
					got[f] = append(got[f], string(t))
				})
				c.Eval(1)
				want := map[string][]string{}
				for _, f := range dvFields[si] {
					if v := sg.X.Docs[dn].DV[f]; len(v) > 0 {
						want[f] = v
					}
				}
				if err != nil || fmt.Sprint(got) != fmt.Sprint(want) {
					c.Violate("reuse:docvalues", fmt.Sprintf("VisitDocumentValues(%d) with a reader kept across lookups on segment %d (%s) delivered %q (err=%v), expected %q", dn, si, sg.Kind, got, err, want), fmt.Sprint(log))
					return
				}
				c.Inc("dv_visits", 1)
			default: // dictionary iteration on a kept dictionary, counts included
				f := sg.X.Fields[r.Intn(len(sg.X.Fields))]
				dk := fmt.Sprintf("%d/%s", si, f)
				d := dicts[dk]
				if d == nil {
					var err error
					d, err = sg.S.Dictionary(f)
					if err != nil {
						c.Violate("reuse:error:Dictionary", err.Error(), "")
						return
					}
					dicts[dk] = d
				}
				it := d.Iterator(nil, nil, nil)
				var got []string
				for {
					e, err := it.Next()
					if err != nil {
						c.Violate("reuse:dict-iter-error", err.Error(), fmt.Sprint(log))
						return
					}
					if e == nil {
						break
					}
					got = append(got, fmt.Sprintf("%q:%d", e.Term(), e.Count()))
				}
				var want []string
				ts := sg.X.Terms(f)
				sort.Strings(ts)
				for _, t := range ts {
					want = append(want, fmt.Sprintf("%q:%d", t, len(sg.X.DocsOf(f, t))))
				}
				c.Eval(1)
				if fmt.Sprint(got) != fmt.Sprint(want) {
					c.Violate("reuse:dict-iter", fmt.Sprintf("dictionary iteration of field %q on a kept dictionary of segment %d (%s) gave %v, expected %v", f, si, sg.Kind, clipS(fmt.Sprint(got), 400), clipS(fmt.Sprint(want), 400)), fmt.Sprint(log))
					return
				}
				c.Inc("dict_iterations", 1)
			}
		}
		c.Inc("sequences", 1)
		if c.WantSample() {
			if len(log) > 25 {
				log = log[:25]
			}
			c.Sample(map[string]interface{}{"segments": len(segs), "steps": steps, "first_lookups": log})
		}
	}
}

var _ = gen.SmallModes

func init() {
	register(&runner.Property{
		ID:    "C13",
		Level: "exploration",
		Rule: "cases = worlds as in C05; per world 6 sequences of 30-200 steps over all segments: 60% postings lookups (PostingsList+Count+Iterator+Next/Advance sequence, sometimes stopped half way) passing as prealloc any PostingsList/PostingsIterator produced earlier in the sequence (other segment, other encoding 1-hit/general/empty incl. the shared empty singletons, half-consumed, previously ReplaceActual'ed), dictionaries kept per (segment, field); 10% stored-field visits (pooled context recycled across segments); 20% doc-value visits with one reader per segment kept for the whole sequence; 10% dictionary iterations with counts; " +
			"oracle = the specification model for every answer (= what fresh objects return, as C05/C06/C07/C08 establish); evaluations = lookups; non-trivial = lookup reusing an object whose previous use had a different encoding or segment; distinct by (case, sequence, step)",
		Assumptions: append([]string{"Advance targets are non-decreasing and greater than the last returned number", "ReplaceActual only right after creation with a subset, never on 1-hit lists", "a prealloc iterator is no longer used by the caller after it has been handed over"}, InputContract...),
		Phases:      []runner.Phase{{Name: "reuse", Cases: cases(2000, 50000), Run: c13Run}},
		Floors: func(string) map[string]int64 {
			return map[string]int64{"reuse_across_segments": 3000, "reuse_pl.1hit->general": 100, "reuse_pl.general->1hit": 100, "reuse_pi.1hit->general": 100, "reuse_pi.general->1hit": 100, "reuse_pl.general->empty": 20, "dv_reader_reused": 1000}
		},
	})
}
