package props

import (
	"fmt"
	"math/rand"
	"strings"

	"github.com/RoaringBitmap/roaring"

	"verif/harness/gen"
	"verif/harness/model"
	"verif/harness/runner"
)

// C06 — stored fields of a document are returned exactly and only for that document.

// storedBatch builds n documents whose stored records have controlled sizes:
// most documents have a tiny record (no stored field at all -> 2 bytes, or one
// empty value), one document per 128-block carries a bigger value so that the
// total uncompressed size of consecutive blocks differs by delta bytes, and the
// last record of each block is short.
func storedBatch(r *rand.Rand, n int, prefix string, delta int) []*model.MDoc {
	docs := make([]*model.MDoc, n)
	base := 3 + r.Intn(30)
	for i := range docs {
		d := &model.MDoc{}
		blk := i / 128
		inBlk := i % 128
		id := fmt.Sprintf("%s-%d", prefix, i)
		// _id carries the unique term (not stored here, so records stay short)
		d.Fields = append(d.Fields, &model.MField{N: "_id", Terms: []*model.MTerm{{T: []byte(id), F: 1}}})
		switch {
		case inBlk == 5: // the block's size knob
			sz := base + blk*delta
			if sz < 0 {
				sz = 0
			}
			d.Fields = append(d.Fields, &model.MField{N: "big", St: true, V: []byte(strings.Repeat(string(rune('a'+blk%26)), sz))})
		case inBlk == 127 || i == n-1: // last record of the block: as short as possible
			switch r.Intn(3) {
			case 0: // no stored field: 2-byte record
			case 1:
				d.Fields = append(d.Fields, &model.MField{N: "e", St: true, V: []byte{}})
			default:
				d.Fields = append(d.Fields, &model.MField{N: "e", St: true, V: []byte{byte('0' + blk%10)}})
			}
		default:
			switch r.Intn(8) {
			case 0:
				d.Fields = append(d.Fields, &model.MField{N: "e", St: true, V: []byte{}})
			case 1:
				d.Fields = append(d.Fields, &model.MField{N: "e", St: true, V: []byte(id)}, &model.MField{N: "e", St: true, V: []byte("2nd")}, &model.MField{N: "a", St: true, V: []byte("A" + id)})
			}
		}
		docs[i] = d
	}
	return docs
}

// metaSweepDocs returns documents whose stored-record META section (per stored value: uvarint field id, uvarint
// start offset, uvarint length) has exactly the lengths 125..131, 253..259, 381..387 and 16381..16387 bytes, so
// that the uvarint holding the meta length sits on and around its size steps and the bytes 0x80 / 0x80 0x80.
// Field "m" gets an id < 128 (1 byte). a empty values cost 3 bytes each (offset 0), one 128-byte value costs 4
// (2-byte length) and every empty value after it costs 4 (2-byte offset 128): T = 3a + 4(1+b).
func metaSweepDocs(prefix string, first int) []*model.MDoc {
	var out []*model.MDoc
	for _, centre := range []int{128, 256, 384, 16384} {
		for T := centre - 3; T <= centre+3; T++ {
			a := 0
			for (T-3*a)%4 != 0 || T-3*a < 4 {
				a++
			}
			b := (T-3*a)/4 - 1
			d := &model.MDoc{}
			id := fmt.Sprintf("%s-%d", prefix, first+len(out))
			d.Fields = append(d.Fields, &model.MField{N: "_id", Terms: []*model.MTerm{{T: []byte(id), F: 1}}})
			for i := 0; i < a; i++ {
				d.Fields = append(d.Fields, &model.MField{N: "m", St: true, V: []byte{}})
			}
			d.Fields = append(d.Fields, &model.MField{N: "m", St: true, V: []byte(strings.Repeat("M", 128))})
			for i := 0; i < b; i++ {
				d.Fields = append(d.Fields, &model.MField{N: "m", St: true, V: []byte{}})
			}
			out = append(out, d)
		}
	}
	return out
}

func c06Segs(c *runner.Ctx) ([]*gen.Seg, string, func(), error) {
	r := c.R
	switch c.Idx % 3 {
	case 0: // controlled record sizes
		n := []int{129, 130, 255, 256, 257, 300, 384, 385}[r.Intn(8)]
		delta := r.Intn(33) - 8 // -8 .. +24
		docs := storedBatch(r, n, fmt.Sprintf("s%d", c.Idx), delta)
		if c.Idx%6 == 0 { // records whose meta section has a length at the varint steps (127|128|129, 255|256, 383|384, 16383|16384)
			docs = append(docs, metaSweepDocs(fmt.Sprintf("s%d", c.Idx), n)...)
		}
		b, err := gen.BuildSeg(docs, 1025)
		if err != nil {
			return nil, "controlled", func() {}, err
		}
		segs := []*gen.Seg{b}
		lm, err := b.Reload(c.TmpDir, false)
		if err != nil {
			return segs, "controlled", func() {}, err
		}
		lf, err := b.Reload(c.TmpDir, true)
		if err != nil {
			return segs, "controlled", func() {}, err
		}
		segs = append(segs, lm, lf)
		// merged through the byte-copy path (same fields, no drops) and the re-encode path (a deletion)
		docs2 := storedBatch(r, 100+r.Intn(100), fmt.Sprintf("t%d", c.Idx), delta)
		b2, err := gen.BuildSeg(docs2, 1025)
		if err != nil {
			return segs, "controlled", func() {}, err
		}
		segs = append(segs, b2)
		mc, _, err := gen.MergeSegs([]*gen.Seg{b, b2}, []*roaring.Bitmap{nil, roaring.New()}, 1025)
		if err != nil {
			return segs, "controlled", func() {}, err
		}
		dr := roaring.New()
		dr.Add(uint32(r.Intn(n)))
		if r.Intn(2) == 0 {
			dr.AddRange(uint64(120), uint64(120+r.Intn(9))) // stays below n >= 129: deletion bitmaps only name existing documents
		}
		mr, _, err := gen.MergeSegs([]*gen.Seg{b, b2}, []*roaring.Bitmap{dr, nil}, 1025)
		if err != nil {
			return segs, "controlled", func() {}, err
		}
		segs = append(segs, mc, mr)
		return segs, "controlled", func() {
			for _, s := range segs {
				s.Close()
			}
		}, nil
	case 1: // the merge generator of C02 (1-4 inputs, differing field lists, nested merges, all deletion patterns): inputs and output
		m := genMergeCase(r, 6+c.Idx, c.Tier, c.TmpDir)
		if m.Err != nil {
			return nil, "merge-case", m.Close, m.Err
		}
		out, _, err := gen.MergeSegs(m.Inputs, m.Drops, m.OutMode)
		if err != nil {
			return m.Inputs, "merge-case", m.Close, err
		}
		segs := append(append([]*gen.Seg{}, m.Inputs...), out)
		return segs, "merge-case", func() { m.Close(); out.Close() }, nil
	default:
		if c.Idx%60 == 2 { // stored blocks above 1 MiB uncompressed
			sch := gen.GenSchema(r)
			for i := range sch.Fields {
				sch.Fields[i].StoreP = 10
			}
			b, err := gen.BuildSeg(gen.GenBatch(r, sch, 129+r.Intn(140), fmt.Sprintf("B%d", c.Idx), gen.DocOpts{BigStored: true}), 1025)
			if err != nil {
				return nil, "big-stored", func() {}, err
			}
			lf, err := b.Reload(c.TmpDir, true)
			if err != nil {
				return []*gen.Seg{b}, "big-stored", b.Close, err
			}
			return []*gen.Seg{b, lf}, "big-stored", func() { b.Close(); lf.Close() }, nil
		}
		w, err := gen.GenWorld(r, c.TmpDir, fmt.Sprintf("w%d", c.Idx), gen.WorldOpts{MinDocs: 1})
		if err != nil {
			if w != nil {
				return w.Segs, "world", w.Close, err // the segments built before the failure are still visited
			}
			return nil, "world", func() {}, err
		}
		return w.Segs, "world", w.Close, nil
	}
}

func c06Run(c *runner.Ctx) {
	r := c.R
	segs, shape, closer, err := c06Segs(c)
	defer closer()
	c.Inc("cases."+shape, 1)
	if err != nil {
		c.Note(fmt.Sprintf("case %d: workload construction failed (C01/C02/C04's business): %s", c.Idx, clipS(err.Error(), 3000)))
		if len(segs) == 0 {
			return
		}
		for _, s := range segs {
			s.X.Index()
		}
	}
	// visit plan over all segments so that the per-segment / pooled buffers are recycled across blocks and segments
	type visit struct{ seg, doc int }
	var plan []visit
	for si, sg := range segs {
		n := len(sg.X.Docs)
		if n == 0 {
			plan = append(plan, visit{si, 0}, visit{si, 5})
			continue
		}
		switch r.Intn(4) {
		case 0: // forwards
			for d := 0; d < n; d++ {
				plan = append(plan, visit{si, d})
			}
		case 1: // backwards
			for d := n - 1; d >= 0; d-- {
				plan = append(plan, visit{si, d})
			}
		case 2: // alternate between blocks: first/last records of each block
			for k := 0; k < 40; k++ {
				b1 := r.Intn(n/128 + 1)
				b2 := r.Intn(n/128 + 1)
				for _, d := range []int{b1 * 128, b2*128 + 127, b1*128 + 127, b2 * 128, b1*128 + 5} {
					if d >= n {
						d = n - 1
					}
					plan = append(plan, visit{si, d})
				}
			}
		default:
			for k := 0; k < n; k++ {
				plan = append(plan, visit{si, r.Intn(n)})
			}
		}
		// always: first record then the very last (short) record, and out of range
		plan = append(plan, visit{si, 0}, visit{si, n - 1}, visit{si, n}, visit{si, n + 1000})
	}
	// interleave segments
	if r.Intn(2) == 0 {
		r.Shuffle(len(plan), func(i, j int) { plan[i], plan[j] = plan[j], plan[i] })
	}
	lastBlock := map[int]int{}
	for vi, v := range plan {
		sg := segs[v.seg]
		n := len(sg.X.Docs)
		var want []model.XStored
		if v.doc < n {
			want = sg.X.Docs[v.doc].Stored
		}
		stopAt := -1
		if len(want) > 0 && r.Intn(4) == 0 {
			stopAt = r.Intn(len(want))
		}
		var got []model.XStored
		calls := 0
		var err error
		panicked, pmsg, stack := runner.Try(func() {
			err = sg.S.VisitStoredFields(uint64(v.doc), func(f string, val []byte) bool {
				calls++
				got = append(got, model.XStored{Field: f, Val: string(val)})
				return !(stopAt >= 0 && calls == stopAt+1)
			})
		})
		c.Eval(1)
		desc := func() string {
			prev := ""
			for k := vi - 3; k < vi; k++ {
				if k >= 0 {
					prev += fmt.Sprintf(" (seg%d,doc%d)", plan[k].seg, plan[k].doc)
				}
			}
			return fmt.Sprintf("shape=%s segment %d kind=%s docs=%d fields=%q; visit doc %d (block %d, position %d in block); previous visits:%s", shape, v.seg, sg.Kind, n, sg.X.Fields, v.doc, v.doc/128, v.doc%128, prev)
		}
		origin := sg.Kind
		switch {
		case panicked:
			c.Violate("panic:"+runner.TopIceFrame(stack), fmt.Sprintf("VisitStoredFields(%d) panicked: %s", v.doc, pmsg), stack+"\n"+desc())
			return
		case err != nil:
			c.Violate("error:"+origin, fmt.Sprintf("VisitStoredFields(%d) returned error: %v", v.doc, err), desc())
			return
		case v.doc >= n && calls > 0:
			c.Violate("out-of-range-delivers", fmt.Sprintf("VisitStoredFields(%d) on a segment of %d documents delivered %q", v.doc, n, got), desc())
			return
		case stopAt >= 0:
			if calls != stopAt+1 {
				c.Violate("early-stop", fmt.Sprintf("visitor returned false at value %d but was called %d times", stopAt, calls), desc())
				return
			}
			if fmt.Sprintf("%q", got) != fmt.Sprintf("%q", want[:stopAt+1]) {
				c.Violate("wrong-values:"+origin, fmt.Sprintf("VisitStoredFields(%d) delivered %s, expected prefix %s", v.doc, clipS(fmt.Sprintf("%q", got), 300), clipS(fmt.Sprintf("%q", want[:stopAt+1]), 300)), desc())
				return
			}
			c.Inc("early_stops", 1)
		default:
			if fmt.Sprintf("%q", got) != fmt.Sprintf("%q", want) {
				c.Violate("wrong-values:"+origin, fmt.Sprintf("VisitStoredFields(%d) delivered %s, expected %s", v.doc, clipS(fmt.Sprintf("%q", got), 300), clipS(fmt.Sprintf("%q", want), 300)), desc())
				return
			}
		}
		if v.doc >= n {
			c.Inc("visits_out_of_range", 1)
			continue
		}
		c.Inc("visits."+sg.Kind, 1)
		if lb, ok := lastBlock[v.seg]; ok && lb != v.doc/128 {
			c.Inc("block_switches", 1)
		}
		lastBlock[v.seg] = v.doc / 128
		if (v.doc%128 == 127 || v.doc == n-1) && len(want) <= 1 && n > 128 {
			c.Inc("short_last_record_visits", 1)
		}
		if len(want) == 0 {
			c.Inc("visits_no_stored_field", 1)
		}
		if len(want) >= 3 {
			c.Inc("visits_many_values", 1)
		}
	}
	for si, sg := range segs {
		if len(sg.X.Docs) > 128 {
			c.Nontrivial(hashAny(shape, sg.Kind, sg.X.Dump(model.DumpOpts{Stored: true})), 1)
			if c.WantSample() {
				c.Sample(map[string]interface{}{"shape": shape, "segment": si, "kind": sg.Kind, "docs": len(sg.X.Docs), "fields": sg.X.Fields, "doc0_stored": fmt.Sprintf("%q", sg.X.Docs[0].Stored), "last_doc_stored": fmt.Sprintf("%q", sg.X.Docs[len(sg.X.Docs)-1].Stored), "visits_planned": len(plan)})
			}
		}
	}
}

func init() {
	register(&runner.Property{
		ID:    "C06",
		Level: "exploration",
		Rule: "cases alternate between (a) controlled batches of 129..385 documents whose records are 2-3 bytes except one size-knob record per 128-document block, so that consecutive blocks' uncompressed sizes differ by -8..+24 bytes and every block ends in a very short record; built, memory-/file-loaded, merged through the byte-copy path and through the re-encode path, and (b) general worlds (0/1/many stored fields, empty values, repeated fields, no stored field); visits run forwards, backwards, random, alternating between first/last records of different blocks, interleaved across segments, plus n>=Count and early-stopping visitors; " +
			"oracle = specification per visit; one evaluation per visit; non-trivial = segment with more than one 128-document block, distinct by (shape, kind, stored content)",
		Assumptions: InputContract,
		Phases:      []runner.Phase{{Name: "visit", Cases: cases(2400, 60000), Run: c06Run}},
		Floors: func(string) map[string]int64 {
			return map[string]int64{"short_last_record_visits": 2000, "block_switches": 5000, "early_stops": 500, "visits_out_of_range": 500, "visits.merged": 5000, "visits.loaded-file": 3000}
		},
	})
}
