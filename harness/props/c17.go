package props

import (
	"fmt"
	"math/rand"
	"regexp"

	"github.com/RoaringBitmap/roaring"
	segment "github.com/blugelabs/bluge_segment_api"

	"verif/harness/gen"
	"verif/harness/model"
	"verif/harness/observe"
	"verif/harness/runner"
)

// C17 — merging is associative and has single-segment identity (pure
// metamorphic oracle: no specification model involved).

type c17Unit struct {
	seg  *gen.Seg
	orig [][2]int // current doc number -> (original segment, original doc)
}

type c17Ctx struct {
	r       *rand.Rand
	pending map[[2]int]bool // deletions not yet applied
	shape   []string
	err     error
	merges  int
	waves   int // deletions applied above the leaves (translated through DocumentNumbers)
}

// mergeUnits merges units; applyAll forces every pending deletion to be applied now.
func (x *c17Ctx) mergeUnits(units []c17Unit, applyAll bool) c17Unit {
	var ins []*gen.Seg
	var drops []*roaring.Bitmap
	for _, u := range units {
		ins = append(ins, u.seg)
		var bm *roaring.Bitmap
		for n, o := range u.orig {
			if x.pending[o] && (applyAll || x.r.Intn(2) == 0) {
				if bm == nil {
					bm = roaring.New()
				}
				bm.Add(uint32(n))
			}
		}
		if bm == nil && x.r.Intn(2) == 0 {
			bm = roaring.New()
		}
		drops = append(drops, bm)
	}
	mode := gen.SmallModes[x.r.Intn(len(gen.SmallModes))]
	out, nums, err := gen.MergeSegs(ins, drops, mode)
	x.merges++
	if err != nil {
		x.err = err
		return c17Unit{}
	}
	var orig [][2]int
	for ui, u := range units {
		for n, o := range u.orig {
			if drops[ui] != nil && drops[ui].Contains(uint32(n)) {
				delete(x.pending, o)
				continue
			}
			if int(nums[ui][n]) != len(orig) {
				x.err = fmt.Errorf("DocumentNumbers()[%d][%d]=%d, expected %d (C03's business)", ui, n, nums[ui][n], len(orig))
				return c17Unit{}
			}
			orig = append(orig, o)
		}
	}
	return c17Unit{seg: out, orig: orig}
}

// tree merges units with a random order-preserving grouping of depth <= depth.
func (x *c17Ctx) tree(units []c17Unit, depth int, root bool) c17Unit {
	if x.err != nil {
		return c17Unit{}
	}
	if depth == 0 || len(units) == 1 && !root {
		if len(units) == 1 && !root {
			return units[0]
		}
		return x.mergeUnits(units, root)
	}
	// partition into consecutive groups
	var groups [][]c17Unit
	for i := 0; i < len(units); {
		k := 1 + x.r.Intn(len(units)-i)
		if root && i == 0 && k == len(units) && len(units) > 1 {
			k = 1 + x.r.Intn(len(units)-1) // a real bracketing at the root
		}
		groups = append(groups, units[i:i+k])
		i += k
	}
	desc := "("
	var mids []c17Unit
	for _, g := range groups {
		desc += fmt.Sprintf("%d ", len(g))
		if len(g) == 1 && x.r.Intn(2) == 0 {
			mids = append(mids, g[0])
			continue
		}
		m := x.tree(g, depth-1, false)
		if x.err != nil {
			return c17Unit{}
		}
		mids = append(mids, m)
	}
	x.shape = append(x.shape, desc+")")
	pendingBefore := len(x.pending)
	out := x.mergeUnits(mids, root)
	if pendingBefore != len(x.pending) {
		for _, m := range mids {
			if m.seg.Kind == "merged" {
				x.waves++
				break
			}
		}
	}
	return out
}

var docsStatRe = regexp.MustCompile(` docs=\d+ `)

func c17Run(c *runner.Ctx) {
	r := c.R
	sch := gen.GenSchema(r)
	k := 2 + r.Intn(4)
	var bases []*gen.Seg
	defer func() {
		for _, b := range bases {
			b.Close()
		}
	}()
	sub := r.Intn(2) == 0
	for i := 0; i < k; i++ {
		s2 := sch
		if sub {
			s2 = sch.Sub(r)
		}
		if c.Idx%5 == 3 && len(s2.Fields) > 0 {
			// a field indexed with doc values in some inputs only (this check needs no specification model, so the
			// configuration the model-based checks exclude is welcome here)
			cp := &gen.Schema{IDP: s2.IDP, IDDV: s2.IDDV, Fields: append([]gen.FieldSpec(nil), s2.Fields...)}
			k := r.Intn(len(cp.Fields))
			cp.Fields[k].DV = !cp.Fields[k].DV
			s2 = cp
			c.Inc("inputs_with_flipped_docvalue_flag", 1)
		}
		n := smallSize(r)
		if c.Idx%400 == 0 {
			n = 400 + r.Intn(400)
		}
		b, err := buildInput(r, s2, n, fmt.Sprintf("i%d", i), c.TmpDir, 1)
		if err != nil {
			c.Note(fmt.Sprintf("case %d: building an input failed (C01/C02/C04's business): %s", c.Idx, firstLine(err.Error())))
			return
		}
		bases = append(bases, b)
	}
	var presetDrops []*roaring.Bitmap
	if c.Idx%400 == 200 { // jumbo inputs whose terms survive in exactly 1023/1024/1025/2048 documents (+ a merged tiny input with 1-hit terms)
		mc := genMergeCase(r, 3, c.Tier, c.TmpDir)
		if mc.Err != nil {
			c.Note(fmt.Sprintf("case %d: building the boundary inputs failed: %s", c.Idx, firstLine(mc.Err.Error())))
			return
		}
		for _, b := range bases {
			b.Close()
		}
		bases, presetDrops, k = mc.Inputs, mc.Drops, len(mc.Inputs)
		c.Inc("boundary_cardinality_cases", 1)
	}
	// deletions
	all := map[[2]int]bool{}
	var dropDesc []string
	for i, b := range bases {
		d := gen.Drops(r, len(b.X.Docs), -1)
		if presetDrops != nil {
			d = presetDrops[i]
		}
		if d != nil {
			it := d.Iterator()
			for it.HasNext() {
				all[[2]int{i, int(it.Next())}] = true
			}
			dropDesc = append(dropDesc, clipS(d.String(), 60))
		} else {
			dropDesc = append(dropDesc, "nil")
		}
	}
	units := func() []c17Unit {
		var us []c17Unit
		for i, b := range bases {
			u := c17Unit{seg: b}
			for d := range b.X.Docs {
				u.orig = append(u.orig, [2]int{i, d})
			}
			us = append(us, u)
		}
		return us
	}
	copyAll := func() map[[2]int]bool {
		m := map[[2]int]bool{}
		for k := range all {
			m[k] = true
		}
		return m
	}
	base := func() string {
		s := fmt.Sprintf("inputs=%d:", k)
		for i, b := range bases {
			s += fmt.Sprintf(" [%s docs=%d mode=%d fields=%q drops=%s]", b.Kind, len(b.X.Docs), b.Mode, b.X.Fields, dropDesc[i])
		}
		return s
	}
	// (i) all at once
	x0 := &c17Ctx{r: r, pending: copyAll()}
	flat := x0.mergeUnits(units(), true)
	if x0.err != nil {
		c.Note(fmt.Sprintf("case %d: flat merge failed (C02/C03's business): %s", c.Idx, firstLine(x0.err.Error())))
		return
	}
	ref, err := observe.Observe(flat.seg.S, model.AllStats)
	if err != nil {
		c.Note(fmt.Sprintf("case %d: observing the flat merge failed (C02's business): %v", c.Idx, err))
		return
	}
	// (ii) bracketings
	variants := 3
	for v := 0; v < variants; v++ {
		x := &c17Ctx{r: r, pending: copyAll()}
		out := x.tree(units(), 1+r.Intn(3), true)
		c.Eval(1)
		if x.err != nil {
			c.Violate("bracketing-error:"+errClass(x.err), "a bracketed merge failed where the flat merge succeeded: "+firstLine(x.err.Error()), x.err.Error()+"\n"+base())
			continue
		}
		if len(x.pending) != 0 {
			c.Note("harness: pending deletions left at the root")
			continue
		}
		got, err := observe.Observe(out.seg.S, model.AllStats)
		if err != nil {
			c.Violate("bracketing-observe:"+errClass(err), "reading a bracketed merge failed: "+firstLine(err.Error()), err.Error()+"\n"+base())
			continue
		}
		if got != ref {
			c.Violate("not-associative:"+classifyDiff(ref, got), fmt.Sprintf("merging with grouping %v differs from merging all at once: %s", x.shape, model.FirstDiff(ref, got)), base())
			continue
		}
		c.Inc("bracketings_equal", 1)
		c.Inc("inner_merges", int64(x.merges))
		if x.waves > 0 {
			c.Inc("bracketings_with_translated_deletions", 1)
		}
		if x.merges >= 2 {
			c.Nontrivial(hashAny(ref, fmt.Sprint(x.shape), x.merges, x.waves), 1)
		}
		if c.WantSample() && x.merges >= 3 {
			c.Sample(map[string]interface{}{"inputs": base(), "grouping_sizes_bottom_up": x.shape, "merges": x.merges, "levels_applying_translated_deletions": x.waves, "survivors": len(out.orig)})
		}
	}
	// (iii) single-segment identity: merge([S]) == S
	for _, s := range []*gen.Seg{bases[r.Intn(len(bases))], flat.seg} {
		m, _, err := gen.MergeSegs([]*gen.Seg{s}, []*roaring.Bitmap{pickDrop(r, nil, roaring.New())}, gen.SmallModes[r.Intn(len(gen.SmallModes))])
		c.Eval(1)
		if err != nil {
			c.Violate("identity-error:"+errClass(err), "merging a single segment failed: "+firstLine(err.Error()), err.Error()+"\n"+base())
			continue
		}
		a, err1 := observe.Observe(s.S, model.AllStats)
		b, err2 := observe.Observe(m.S, model.AllStats)
		if err1 != nil || err2 != nil {
			c.Violate("identity-observe", fmt.Sprintf("reading failed: %v %v", err1, err2), base())
			continue
		}
		if !s.X.Merged {
			// C16 lets DocumentCount differ between built and merged segments (field carried without terms)
			a, b = docsStatRe.ReplaceAllString(a, " docs=* "), docsStatRe.ReplaceAllString(b, " docs=* ")
		}
		if a != b {
			c.Violate("identity:"+classifyDiff(a, b), fmt.Sprintf("merge([S]) differs from S (%s): %s", s.Kind, model.FirstDiff(a, b)), base())
			continue
		}
		c.Inc("identity_equal."+map[bool]string{true: "merged-origin", false: "built-origin"}[s.X.Merged], 1)
	}
}

var _ segment.Segment

func init() {
	register(&runner.Property{
		ID:    "C17",
		Level: "exploration",
		Rule: "cases = 2..5 inputs (built, loaded or previously merged; equal or sub-schemas; one case with 400-800-document inputs) with a deletion pattern each; the flat merge applies all deletions at once; 3 variants per case merge by a random order-preserving grouping tree (depth 1..3, random chunk mode at every merge) where each pending deletion is applied at a random level, translated through the DocumentNumbers() of the merges below it (second waves of deletions on already merged intermediates), and the root applies what is left; plus merge([S]) vs S for an input and for the flat result; " +
			"oracle = full observation incl. statistics must be textually equal (DocumentCount masked only when comparing a built S with merge([S]), as C16 allows); no specification model is involved; evaluations = variants compared; non-trivial = variant with >=2 merges, distinct by (observation, grouping)",
		Assumptions: InputContract,
		Phases:      []runner.Phase{{Name: "metamorphic", Cases: cases(4000, 100000), Run: c17Run}},
		Floors: func(string) map[string]int64 {
			return map[string]int64{"bracketings_equal": 800, "bracketings_with_translated_deletions": 100, "identity_equal.merged-origin": 200, "identity_equal.built-origin": 100}
		},
	})
}
