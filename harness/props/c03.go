package props

import (
	"fmt"

	"github.com/RoaringBitmap/roaring"
	segment "github.com/blugelabs/bluge_segment_api"

	"verif/harness/gen"
	"verif/harness/model"
	"verif/harness/runner"
)

// C03 — merge reports a correct old->new document number mapping.

type sTerm struct {
	f string
	t []byte
}

func (t sTerm) Field() string { return t.f }
func (t sTerm) Term() []byte  { return t.t }

func c03Run(c *runner.Ctx) {
	m := genMergeCase(c.R, c.Idx, c.Tier, c.TmpDir)
	defer m.Close()
	c.Eval(1)
	c.Inc("shape."+m.Shape, 1)
	if m.Err != nil {
		// inputs are C02/C04's business; without inputs there is nothing to decide here
		c.Inc("skipped_input_error", 1)
		return
	}
	xs := make([]*model.XSeg, len(m.Inputs))
	for i, s := range m.Inputs {
		xs[i] = s.X
	}
	xm, want := model.Merge(xs, m.Drops)
	b, nums, n, err := gen.MergeBytes(m.Inputs, m.Drops, m.OutMode)
	if err != nil {
		c.Violate("merge-error:"+errClass(err), "merge failed: "+firstLine(err.Error()), err.Error()+"\n"+m.Describe())
		return
	}
	if int(n) != len(b) {
		c.Violate("bytes-count", fmt.Sprintf("merge reported %d bytes, wrote %d", n, len(b)), m.Describe())
	}
	// shape of the map
	if len(nums) != len(m.Inputs) {
		c.Violate("map-shape:outer", fmt.Sprintf("DocumentNumbers() has %d slices for %d input segments (survivors=%d)", len(nums), len(m.Inputs), len(xm.Docs)), m.Describe())
		return
	}
	for i := range nums {
		if len(nums[i]) != len(want[i]) {
			c.Violate("map-shape:inner", fmt.Sprintf("DocumentNumbers()[%d] has length %d, input segment has %d documents", i, len(nums[i]), len(want[i])), m.Describe())
			return
		}
		for d := range nums[i] {
			if nums[i][d] != want[i][d] {
				c.Violate("map-value", fmt.Sprintf("DocumentNumbers()[%d][%d]=%d, expected %d", i, d, nums[i][d], want[i][d]), m.Describe())
				return
			}
		}
	}
	seg, err := gen.LoadMem(b)
	if err != nil {
		// loading is C04's business; Count cannot be observed
		c.Inc("skipped_load_error", 1)
		return
	}
	if int(seg.Count()) != len(xm.Docs) {
		c.Violate("count", fmt.Sprintf("merged Count()=%d, survivors=%d", seg.Count(), len(xm.Docs)), m.Describe())
		return
	}
	// content of every surviving old document sits at its reported new number
	checked := 0
	for i, s := range m.Inputs {
		for d, xd := range s.X.Docs {
			nn := nums[i][d]
			if nn == model.DocDropped {
				continue
			}
			var got []model.XStored
			err := seg.VisitStoredFields(nn, func(f string, v []byte) bool {
				got = append(got, model.XStored{Field: f, Val: string(v)})
				return true
			})
			if err != nil {
				c.Violate("content-stored-error", fmt.Sprintf("VisitStoredFields(%d): %v", nn, err), m.Describe())
				return
			}
			if fmt.Sprintf("%q", got) != fmt.Sprintf("%q", xm.Docs[nn].Stored) {
				c.Violate("content-stored", fmt.Sprintf("old doc (%d,%d) -> new %d: stored fields %q, expected %q", i, d, nn, got, xm.Docs[nn].Stored), m.Describe())
				return
			}
			for t := range xd.Terms["_id"] {
				bm, err := seg.DocsMatchingTerms([]segment.Term{sTerm{"_id", []byte(t)}})
				if err != nil {
					c.Violate("content-id-error", fmt.Sprintf("DocsMatchingTerms(_id:%q): %v", t, err), m.Describe())
					return
				}
				if !bm.Equals(roaring.BitmapOf(uint32(nn))) {
					c.Violate("content-id", fmt.Sprintf("old doc (%d,%d) with _id %q reported at new number %d but found at %v", i, d, t, nn, bm.ToArray()), m.Describe())
					return
				}
			}
			checked++
		}
	}
	c.Inc("survivors_content_checked", int64(checked))
	dropped := 0
	for i := range want {
		for _, v := range want[i] {
			if v == model.DocDropped {
				dropped++
			}
		}
	}
	c.Inc("dropped_docs", int64(dropped))
	if len(xm.Docs) == 0 {
		c.Inc("zero_survivor_merges", 1)
	}
	for _, s := range m.Inputs {
		if len(s.X.Docs) == 0 {
			c.Inc("zero_document_inputs", 1)
		}
	}
	if dropped > 0 && checked > 0 && len(m.Inputs) >= 2 {
		c.Nontrivial(m.Hash(), 1)
	}
	if c.WantSample() {
		s := m.Summary()
		s["document_numbers"] = clipS(fmt.Sprint(nums), 300)
		c.Sample(s)
	}
}

func init() {
	register(&runner.Property{
		ID:    "C03",
		Level: "exploration",
		Rule: "cases = the C02 merge generator (incl. forced zero-survivor merges, zero-document inputs, single input, everything survives); oracle = exact comparison of DocumentNumbers() with the model map, Count()==survivors, and per surviving old document: stored fields at the new number and DocsMatchingTerms(_id)=={new}; " +
			"non-trivial = >=2 inputs, >=1 dropped and >=1 surviving document; distinct = hash of (input model dumps, modes, bitmaps)",
		Assumptions: InputContract,
		Phases:      []runner.Phase{{Name: "map", Cases: cases(12000, 300000), Run: c03Run}},
		Floors: func(string) map[string]int64 {
			return map[string]int64{"zero_survivor_merges": 1, "zero_document_inputs": 2, "survivors_content_checked": 1000}
		},
	})
}
