package props

import (
	"fmt"

	"verif/harness/gen"
	"verif/harness/model"
	"verif/harness/runner"
)

// C02 — a merge is indistinguishable from rebuilding the surviving documents.
// Oracle: observation of the loaded merge output == dump of model.Merge.

func c02Run(c *runner.Ctx) {
	if c.Idx%4 == 1 { // hostile history: aborted and cancelled merges precede this merge
		abortedMergeHistory(c)
	}
	m := genMergeCase(c.R, c.Idx, c.Tier, c.TmpDir)
	defer m.Close()
	c.Eval(1)
	c.Inc("shape."+m.Shape, 1)
	if m.Err != nil {
		c.Violate("input-error:"+errClass(m.Err), "building/loading a merge input failed: "+firstLine(m.Err.Error()), m.Err.Error()+"\n"+m.Describe())
		return
	}
	out, _, err := gen.MergeSegs(m.Inputs, m.Drops, m.OutMode)
	if err != nil {
		c.Violate("merge-error:"+errClass(err), "merge (or load of its output) failed: "+firstLine(err.Error()), err.Error()+"\n"+m.Describe())
		return
	}
	if !compare(c, "merged", out.S, out.X, model.All, m.Describe) {
		return
	}
	// evidence
	copyPath, reencode := 0, 0
	same := m.fieldsSame()
	for i := range m.Inputs {
		if same && (m.Drops[i] == nil || m.Drops[i].IsEmpty()) {
			copyPath++
		} else {
			reencode++
		}
	}
	c.Inc("stored_copy_path_inputs", int64(copyPath))
	c.Inc("stored_reencode_path_inputs", int64(reencode))
	if !same {
		c.Inc("merges_differing_field_lists", 1)
	}
	nested := 0
	for _, s := range m.Inputs {
		if s.Kind == "merged" {
			nested++
		}
		c.Inc("input_kind."+s.Kind, 1)
	}
	ci := chunkStats(out)
	c.Inc("onehit_terms_produced", int64(ci.OneHit))
	c.Inc("lists_multi_chunk", int64(ci.MultiChunk))
	c.Inc("lists_over_1024_docs", int64(ci.Over1024))
	c.Max("max_survivors", int64(len(out.X.Docs)))
	c.Inc(fmt.Sprintf("out_mode.%d", m.OutMode), 1)
	if m.survivors() == 0 {
		c.Inc("zero_survivor_merges", 1)
	}
	if (len(m.Inputs) >= 2 && m.anyDrop()) || !same || ci.MultiChunk > 0 {
		c.Nontrivial(m.Hash(), 1)
	}
	if c.WantSample() {
		c.Sample(m.Summary())
	}
}

func init() {
	register(&runner.Property{
		ID:    "C02",
		Level: "exploration",
		Rule: "cases = PRNG merges of 1..4 inputs (built, memory-/file-loaded, previously merged up to depth 2; equal or sub-schemas; input and output chunk modes in {1,2,3,5,7,64,1024,1025}) with a deletion pattern per input (nil, empty, random third, all-but-few, everything, one run, one doc); forced: zero survivors, empty inputs, single input, jumbo (>1024 surviving docs in a doc-value field), copy path; " +
			"non-trivial = (>=2 inputs and >=1 deletion) or differing field lists or a multi-chunk term in the output; distinct = hash of (input model dumps, modes, bitmaps)",
		Assumptions: InputContract,
		Phases:      []runner.Phase{{Name: "model", Cases: cases(12000, 300000), Run: c02Run}},
		Floors: func(string) map[string]int64 {
			return map[string]int64{"stored_copy_path_inputs": 5, "stored_reencode_path_inputs": 50, "onehit_terms_produced": 50, "lists_over_1024_docs": 1, "zero_survivor_merges": 1, "merges_differing_field_lists": 20}
		},
	})
}
