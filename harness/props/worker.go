package props

import (
	"fmt"
	"os"
)

// Worker dispatches internal worker modes (processes spawned by a case).
func Worker(name string, args []string) int {
	if f, ok := workers[name]; ok {
		return f(args)
	}
	fmt.Fprintf(os.Stderr, "unknown worker %q\n", name)
	return 3
}

var workers = map[string]func([]string) int{}
