package props

import (
	"fmt"

	"verif/harness/gen"
	"verif/harness/runner"
)

// C07 — doc values return exactly each document's terms for the requested fields.

func c07Run(c *runner.Ctx) {
	r := c.R
	jumbo := c.Idx%50 == 0
	var w *gen.World
	var err error
	if jumbo {
		w, err = gen.GenWorld(r, c.TmpDir, fmt.Sprintf("w%d", c.Idx), gen.WorldOpts{Jumbo: true})
		c.Inc("worlds.jumbo", 1)
	} else {
		w, err = gen.GenWorld(r, c.TmpDir, fmt.Sprintf("w%d", c.Idx), gen.WorldOpts{})
		c.Inc("worlds.random", 1)
	}
	if w = usable(c, w, err); w == nil {
		return
	}
	defer w.Close()
	unknown := []string{"no-such-field", "", "zz-top"}
	for si, sg := range w.Segs {
		n := len(sg.X.Docs)
		if n == 0 {
			// a reader on an empty segment must still be creatable
			if _, err := sg.S.DocumentValueReader(sg.X.Fields); err != nil {
				c.Violate("reader-error", err.Error(), "")
			}
			continue
		}
		readers := 3
		if jumbo {
			readers = 2
		}
		for ri := 0; ri < readers; ri++ {
			// requested fields: a permuted subset of the segment's fields plus unknown names
			fs := append([]string{}, sg.X.Fields...)
			r.Shuffle(len(fs), func(i, j int) { fs[i], fs[j] = fs[j], fs[i] })
			fs = fs[:1+r.Intn(len(fs))]
			if r.Intn(2) == 0 {
				fs = append(fs, unknown[r.Intn(len(unknown))])
				r.Shuffle(len(fs), func(i, j int) { fs[i], fs[j] = fs[j], fs[i] })
			}
			if ri == 0 {
				fs = append([]string{}, sg.X.Fields...) // all fields once per segment
			}
			dvr, err := sg.S.DocumentValueReader(fs)
			if err != nil || dvr == nil {
				c.Violate("reader-error", fmt.Sprintf("DocumentValueReader(%q): %v", fs, err), "")
				continue
			}
			// visiting order
			var order []int
			nv := 40 + r.Intn(361)
			pattern := r.Intn(5)
			switch pattern {
			case 0:
				for d := 0; d < n && len(order) < nv*3; d++ {
					order = append(order, d)
				}
			case 1:
				for d := n - 1; d >= 0 && len(order) < nv*3; d-- {
					order = append(order, d)
				}
			case 2:
				for k := 0; k < nv; k++ {
					order = append(order, r.Intn(n))
				}
			case 3: // ping-pong across 1024-document chunk boundaries (or the middle when smaller)
				var edges []int
				for b := 1024; b < n; b += 1024 {
					edges = append(edges, b)
				}
				if len(edges) == 0 {
					edges = []int{n / 2}
				}
				for k := 0; k < nv; k++ {
					e := edges[r.Intn(len(edges))]
					d := e - 2 + r.Intn(5)
					if d < 0 {
						d = 0
					}
					if d >= n {
						d = n - 1
					}
					order = append(order, d)
				}
			default: // strided forwards then backwards
				stride := 1 + r.Intn(1+n/7)
				for d := 0; d < n; d += stride {
					order = append(order, d)
				}
				for d := n - 1; d >= 0; d -= stride {
					order = append(order, d)
				}
			}
			lastChunk := -1
			for vi, dn := range order {
				got := map[string][]string{}
				var err error
				panicked, pmsg, stack := runner.Try(func() {
					err = dvr.VisitDocumentValues(uint64(dn), func(f string, t []byte) {
						got[f] = append(got[f], string(t))
					})
				})
				c.Eval(1)
				want := map[string][]string{}
				for _, f := range fs {
					if v := sg.X.Docs[dn].DV[f]; len(v) > 0 {
						want[f] = v
					}
				}
				desc := func() string {
					prev := []int{}
					for k := vi - 4; k < vi; k++ {
						if k >= 0 {
							prev = append(prev, order[k])
						}
					}
					return fmt.Sprintf("segment %d kind=%s mode=%d docs=%d fields=%q requested=%q; visit %d of this reader: doc %d (chunk %d); previous docs %v", si, sg.Kind, sg.Mode, n, sg.X.Fields, fs, vi, dn, dn/1024, prev)
				}
				switch {
				case panicked:
					c.Violate("panic:"+runner.TopIceFrame(stack), fmt.Sprintf("VisitDocumentValues(%d) panicked: %s", dn, pmsg), stack+"\n"+desc())
				case err != nil:
					c.Violate("error:"+sg.Kind, fmt.Sprintf("VisitDocumentValues(%d) returned error: %v", dn, err), desc())
				case fmt.Sprint(got) != fmt.Sprint(want):
					kind := "wrong-terms"
					for f := range got {
						if _, ok := want[f]; !ok {
							kind = "unexpected-field"
						}
					}
					for f := range want {
						if _, ok := got[f]; !ok {
							kind = "missing-field"
						}
					}
					c.Violate(kind+":"+sg.Kind, fmt.Sprintf("VisitDocumentValues(%d) delivered %s, expected %s", dn, clipS(fmt.Sprintf("%q", got), 300), clipS(fmt.Sprintf("%q", want), 300)), desc())
				default:
					c.Inc("visits."+sg.Kind, 1)
					if lastChunk >= 0 && lastChunk != dn/1024 {
						c.Inc("chunk_switches", 1)
						if lastChunk > dn/1024 {
							c.Inc("chunk_switches_backwards", 1)
						}
					}
					lastChunk = dn / 1024
					if len(want) == 0 {
						c.Inc("visits_without_values", 1)
					}
					continue
				}
				break // this reader failed; go on with the next one
			}
			if n > 1024 {
				c.Inc("readers_on_multi_chunk_segments", 1)
			}
			if n > 2049 {
				c.Inc("readers_on_segments_over_2049_docs", 1)
			}
			c.Nontrivial(hashAny(c.Idx, si, ri, fmt.Sprint(fs), pattern, len(order)), 1)
			if c.WantSample() && len(order) > 4 {
				c.Sample(map[string]interface{}{"segment_kind": sg.Kind, "docs": n, "requested_fields": fs, "pattern": []string{"forwards", "backwards", "random", "ping-pong at chunk edges", "strided"}[pattern], "first_docs_visited": order[:5], "visits": len(order)})
			}
		}
	}
}

func init() {
	register(&runner.Property{
		ID:    "C07",
		Level: "exploration",
		Rule: "cases = worlds (built, loaded, merged, merge-of-merge; 3 jumbo worlds per quick run with segments of 2100-3300 documents so that one reader crosses 1024-document chunks repeatedly); per segment 2-3 readers on a permuted subset of the fields plus unknown names; each reader serves 40-400+ visits in one of five orders (forwards, backwards, random, ping-pong around chunk edges 1022..1026/2046..2050, strided); " +
			"oracle = per visit, per field, the delivered term sequence == sorted distinct terms of the document in the specification; nothing for non-doc-value, unknown fields, documents without terms; only doc < Count is visited; one evaluation per visit; non-trivial = every reader (distinct by case, segment, field list, order)",
		Assumptions: append([]string{"requested field lists contain no duplicates; cross-field callback order is not compared", "only documents below Count() are visited"}, InputContract...),
		Phases:      []runner.Phase{{Name: "visit", Cases: cases(1200, 30000), Run: c07Run}},
		Floors: func(string) map[string]int64 {
			return map[string]int64{"chunk_switches": 1000, "chunk_switches_backwards": 300, "readers_on_segments_over_2049_docs": 4, "visits.merged": 5000, "visits.loaded-file": 2000}
		},
	})
}
