package props

import (
	"bytes"
	"fmt"

	"github.com/RoaringBitmap/roaring"
	segment "github.com/blugelabs/bluge_segment_api"
	ice "github.com/blugelabs/ice/v2"

	"verif/harness/gen"
	"verif/harness/model"
	"verif/harness/observe"
	"verif/harness/runner"
)

// C15 — reading, persisting and merging never modify a segment or the caller's bitmaps.

type bmSnap struct {
	bm    *roaring.Bitmap
	bytes []byte
	vals  string
	role  string
}

func snapBM(bm *roaring.Bitmap, role string) *bmSnap {
	if bm == nil {
		return nil
	}
	b, _ := bm.ToBytes()
	return &bmSnap{bm: bm, bytes: b, vals: bm.String(), role: role}
}

// runnyBitmap builds a bitmap with long runs stored as array/bitmap containers
// (not run-optimised), so an in-place RunOptimize by the library changes ToBytes.
func runnyBitmap(c *runner.Ctx, n int, pattern int) *roaring.Bitmap {
	bm := gen.Drops(c.R, n, pattern)
	return bm
}

func c15Run(c *runner.Ctx) {
	r := c.R
	w, err := gen.GenWorld(r, c.TmpDir, fmt.Sprintf("w%d", c.Idx), gen.WorldOpts{MaxDocs: 150, MinDocs: 2, Jumbo: c.Idx%100 == 0})
	if w = usable(c, w, err); w == nil {
		return
	}
	defer w.Close()
	type segSnap struct {
		bytes []byte
		obs   string
		acc   string
	}
	// accessors that are not part of the observation dump: a loaded segment reports the CRC of the file it was loaded from
	accessors := func(s segment.Segment) string {
		if is, ok := s.(*ice.Segment); ok {
			return fmt.Sprintf("CRC()=%08x Version()=%d Type()=%s Count()=%d NumDocs()=%d ChunkMode()=%d", is.CRC(), is.Version(), is.Type(), is.Count(), is.NumDocs(), is.ChunkMode())
		}
		return ""
	}
	snaps := make([]segSnap, len(w.Segs))
	for i, sg := range w.Segs {
		acc0 := accessors(sg.S) // before the first WriteTo
		b, _, err := gen.Persist(sg.S)
		if err != nil {
			c.Note("persist failed (C04's business): " + err.Error())
			return
		}
		o, err := observe.Observe(sg.S, model.AllStats)
		if err != nil {
			c.Note("observe failed (C01/C02's business): " + err.Error())
			return
		}
		snaps[i] = segSnap{append([]byte(nil), b...), o, acc0}
	}
	var bms []*bmSnap
	var log []string
	verify := func(when string) bool {
		ok := true
		for i, sg := range w.Segs {
			b, _, err := gen.Persist(sg.S)
			c.Eval(1)
			if err != nil {
				c.Violate("segment-unusable:"+sg.Kind, fmt.Sprintf("%s: WriteTo of segment %d failed: %v", when, i, err), fmt.Sprint(log))
				return false
			}
			if !bytes.Equal(b, snaps[i].bytes) {
				c.Violate("segment-bytes-changed:"+sg.Kind, fmt.Sprintf("%s: the bytes persisted by segment %d (%s) changed (%s)", when, i, sg.Kind, diffAt(snaps[i].bytes, b)), fmt.Sprint(log))
				ok = false
				continue
			}
			if a := accessors(sg.S); a != snaps[i].acc {
				c.Violate("segment-accessors-changed:"+sg.Kind, fmt.Sprintf("%s: segment %d (%s) answers its accessors differently: was %s now %s", when, i, sg.Kind, snaps[i].acc, a), fmt.Sprint(log))
				ok = false
			}
			o, err := observe.Observe(sg.S, model.AllStats)
			if err != nil || o != snaps[i].obs {
				c.Violate("segment-observation-changed:"+sg.Kind, fmt.Sprintf("%s: observation of segment %d (%s) changed: err=%v %s", when, i, sg.Kind, err, model.FirstDiff(snaps[i].obs, o)), fmt.Sprint(log))
				ok = false
			}
		}
		for _, s := range bms {
			c.Eval(1)
			b, _ := s.bm.ToBytes()
			if s.bm.String() != s.vals {
				c.Violate("bitmap-contents-changed:"+s.role, fmt.Sprintf("%s: a caller bitmap passed as %s changed its contents: was %s now %s", when, s.role, clipS(s.vals, 100), clipS(s.bm.String(), 100)), fmt.Sprint(log))
				ok = false
			} else if !bytes.Equal(b, s.bytes) {
				c.Violate("bitmap-encoding-changed:"+s.role, fmt.Sprintf("%s: a caller bitmap passed as %s kept its contents but its serialisation changed (%d -> %d bytes): it was modified in place (e.g. run-optimised)", when, s.role, len(s.bytes), len(b)), fmt.Sprint(log))
				ok = false
			}
		}
		return ok
	}
	steps := 40 + r.Intn(80)
	for step := 0; step < steps; step++ {
		si := r.Intn(len(w.Segs))
		sg := w.Segs[si]
		n := len(sg.X.Docs)
		switch op := r.Intn(10); {
		case op < 3: // merge with caller-owned deletion bitmaps
			k := 1 + r.Intn(3)
			var ins []*gen.Seg
			var drops []*roaring.Bitmap
			for i := 0; i < k; i++ {
				s := w.Segs[r.Intn(len(w.Segs))]
				ins = append(ins, s)
				d := gen.Drops(r, len(s.X.Docs), []int{0, 1, 2, 3, 4, 5, 5, 5, 6}[r.Intn(9)])
				drops = append(drops, d)
				if d != nil {
					bms = append(bms, snapBM(d, "deletion bitmap to Merge"))
				}
			}
			mode := gen.SmallModes[r.Intn(len(gen.SmallModes))]
			_, _, _, err := gen.MergeBytes(ins, drops, mode)
			log = append(log, fmt.Sprintf("merge(%d inputs, mode %d)", k, mode))
			if err != nil {
				c.Note("merge failed (C02's business): " + firstLine(err.Error()))
				return
			}
			c.Inc("ops.merge", 1)
			c.Inc("deletion_bitmaps_watched", int64(k))
		case op < 6: // postings with an exclusion bitmap
			if len(sg.X.Fields) == 0 {
				continue
			}
			f := sg.X.Fields[r.Intn(len(sg.X.Fields))]
			ts := sg.X.Terms(f)
			if len(ts) == 0 {
				continue
			}
			t := ts[r.Intn(len(ts))]
			ex := gen.Drops(r, n, []int{2, 3, 4, 5, 5, 6}[r.Intn(6)])
			bms = append(bms, snapBM(ex, "exclusion bitmap to PostingsList"))
			d, err := sg.S.Dictionary(f)
			if err != nil {
				continue
			}
			pl, err := d.PostingsList([]byte(t), ex, nil)
			if err != nil {
				continue
			}
			pl.Count()
			it, err := pl.Iterator(r.Intn(2) == 0, r.Intn(2) == 0, r.Intn(2) == 0, nil)
			if err != nil {
				continue
			}
			for k := 0; k < 1+r.Intn(20); k++ {
				var p segment.Posting
				if r.Intn(2) == 0 {
					p, _ = it.Next()
				} else {
					p, _ = it.Advance(uint64(n))
				}
				if p == nil {
					break
				}
			}
			it.Close()
			// a list read without exclusions whose iterator is handed a caller-owned bitmap as its "actual" set, used and closed
			if pl2, err := d.PostingsList([]byte(t), nil, nil); err == nil {
				if one, _, _ := ice.VerifPostingsInfo(pl2); !one {
					if it2, err := pl2.Iterator(false, false, false, nil); err == nil {
						if opt, isOpt := it2.(segment.OptimizablePostingsIterator); isOpt && opt.ActualBitmap() != nil {
							sub := opt.ActualBitmap().Clone()
							bms = append(bms, snapBM(sub, "bitmap handed to ReplaceActual"))
							opt.ReplaceActual(sub)
							it2.Next()
							it2.Close()
							c.Inc("ops.replace_actual_then_close", 1)
						}
					}
				}
			}
			log = append(log, fmt.Sprintf("postings(seg%d,%q,%q,except)", si, f, t))
			c.Inc("ops.postings_with_exclusion", 1)
		case op < 7: // DocsMatchingTerms, then mutate the RETURNED bitmap (it belongs to the caller)
			var terms []segment.Term
			for k := 0; k < 1+r.Intn(4); k++ {
				f := sg.X.Fields[r.Intn(len(sg.X.Fields))]
				ts := sg.X.Terms(f)
				if len(ts) > 0 {
					terms = append(terms, sTerm{f, []byte(ts[r.Intn(len(ts))])})
				}
			}
			bm, err := sg.S.DocsMatchingTerms(terms)
			if err == nil && bm != nil {
				bm.Add(uint32(n + 7))
				if n > 0 {
					bm.Remove(uint32(r.Intn(n)))
					bm.AddRange(0, uint64(n))
				}
				bm.RunOptimize()
				bm.Clear()
			}
			log = append(log, fmt.Sprintf("docsMatchingTerms(seg%d)+mutate result", si))
			c.Inc("ops.docs_matching_terms_mutated", 1)
		case op < 8: // persist (sometimes to a writer that fails part-way)
			if r.Intn(3) == 0 && len(snaps[si].bytes) > 0 {
				sg.S.WriteTo(&failWriter{at: r.Intn(len(snaps[si].bytes))}, nil)
				log = append(log, fmt.Sprintf("persist-to-failing-writer(seg%d)", si))
				c.Inc("ops.persist_failing_writer", 1)
			} else {
				gen.Persist(sg.S)
				log = append(log, fmt.Sprintf("persist(seg%d)", si))
				c.Inc("ops.persist", 1)
			}
		case op < 9 && step%3 == 0: // an unrelated build (recycles the builder's pooled state; must not touch existing segments)
			other := gen.GenBatch(r, gen.GenSchema(r), 1+r.Intn(30), fmt.Sprintf("o%d.%d", c.Idx, step), gen.DocOpts{Repeat: true})
			if _, err := gen.BuildSeg(other, gen.Mode(r, 30)); err != nil {
				c.Note("build failed (C01's business): " + firstLine(err.Error()))
				return
			}
			log = append(log, "build(unrelated batch)")
			c.Inc("ops.unrelated_build", 1)
		default: // full observation (stored fields, doc values, dictionaries)
			observe.Observe(sg.S, model.All)
			log = append(log, fmt.Sprintf("observe(seg%d)", si))
			c.Inc("ops.observe", 1)
		}
		if len(log) > 50 {
			log = log[1:]
		}
		if step%25 == 24 {
			if !verify(fmt.Sprintf("after step %d", step)) {
				return
			}
		}
	}
	if !verify("at the end of the sequence") {
		return
	}
	c.Inc("sequences", 1)
	c.Inc("bitmaps_watched", int64(len(bms)))
	for _, sg := range w.Segs {
		c.Inc("segments_watched."+sg.Kind, 1)
	}
	c.Nontrivial(hashAny(c.Idx, fmt.Sprint(log)), 1)
	if c.WantSample() {
		c.Sample(map[string]interface{}{"segments": len(w.Segs), "steps": steps, "bitmaps_watched": len(bms), "last_operations": log})
	}
}

func init() {
	register(&runner.Property{
		ID:    "C15",
		Level: "exploration",
		Rule: "cases = worlds (memory- and file-backed segments, one jumbo); snapshot of every segment (WriteTo bytes + full observation incl. statistics) and of every caller bitmap (ToBytes + contents) handed to Merge or PostingsList; 40-120 operations mixing merges with all deletion patterns and chunk modes (bitmaps with long runs in array/bitmap containers, so an in-place RunOptimize changes ToBytes), postings reads with exclusion bitmaps, DocsMatchingTerms whose RETURNED bitmap is then mutated (Add/Remove/AddRange/RunOptimize/Clear), persists and full observations; snapshots re-checked every 25 steps and at the end; " +
			"evaluations = snapshot comparisons; non-trivial = completed sequence (distinct by case and operation log)",
		Assumptions: append([]string{"the bitmap returned by PostingsIterator.ActualBitmap() is documented as shared and is never mutated by the harness"}, InputContract...),
		Phases:      []runner.Phase{{Name: "sequences", Cases: cases(400, 10000), Run: c15Run}},
		Floors: func(string) map[string]int64 {
			return map[string]int64{"deletion_bitmaps_watched": 2000, "ops.postings_with_exclusion": 2000, "ops.docs_matching_terms_mutated": 500, "segments_watched.loaded-file": 50, "segments_watched.loaded-mem": 50}
		},
	})
}
