package props

import (
	"bytes"
	"fmt"
	"math/rand"
	"os"
	"path/filepath"
	"sort"
	"strings"
	"sync"
	"sync/atomic"

	"github.com/RoaringBitmap/roaring"
	segment "github.com/blugelabs/bluge_segment_api"
	ice "github.com/blugelabs/ice/v2"

	"verif/harness/gen"
	"verif/harness/model"
	"verif/harness/runner"
)

// C09 — a segment is safe for concurrent and re-entrant readers, also during a merge.

// ---------- single operations against the model (used concurrently and nested)

func opStored(sg *gen.Seg, dn int) string {
	var got []model.XStored
	err := sg.S.VisitStoredFields(uint64(dn), func(f string, v []byte) bool {
		got = append(got, model.XStored{Field: f, Val: string(v)})
		return true
	})
	if err != nil {
		return "error: " + err.Error()
	}
	if fmt.Sprintf("%q", got) != fmt.Sprintf("%q", sg.X.Docs[dn].Stored) {
		return fmt.Sprintf("VisitStoredFields(%d) delivered %s, expected %s", dn, clipS(fmt.Sprintf("%q", got), 200), clipS(fmt.Sprintf("%q", sg.X.Docs[dn].Stored), 200))
	}
	return ""
}

func opDictIter(sg *gen.Seg, f string) string {
	d, err := sg.S.Dictionary(f)
	if err != nil {
		return "error: " + err.Error()
	}
	it := d.Iterator(nil, nil, nil)
	var got, want []string
	for {
		e, err := it.Next()
		if err != nil {
			return "error: " + err.Error()
		}
		if e == nil {
			break
		}
		got = append(got, fmt.Sprintf("%q:%d", e.Term(), e.Count()))
	}
	for _, t := range sg.X.Terms(f) {
		want = append(want, fmt.Sprintf("%q:%d", t, len(sg.X.DocsOf(f, t))))
	}
	if fmt.Sprint(got) != fmt.Sprint(want) {
		return fmt.Sprintf("dictionary iteration of %q gave %s, expected %s", f, clipS(fmt.Sprint(got), 200), clipS(fmt.Sprint(want), 200))
	}
	return ""
}

func opDV(sg *gen.Seg, dvr segment.DocumentValueReader, fs []string, dn int) string {
	got := map[string][]string{}
	err := dvr.VisitDocumentValues(uint64(dn), func(f string, t []byte) { got[f] = append(got[f], string(t)) })
	if err != nil {
		return "error: " + err.Error()
	}
	want := map[string][]string{}
	for _, f := range fs {
		if v := sg.X.Docs[dn].DV[f]; len(v) > 0 {
			want[f] = v
		}
	}
	if fmt.Sprint(got) != fmt.Sprint(want) {
		return fmt.Sprintf("VisitDocumentValues(%d) delivered %q, expected %q", dn, got, want)
	}
	return ""
}

func opDMT(sg *gen.Seg, r *rand.Rand) string {
	var terms []segment.Term
	want := roaring.New()
	for k := 0; k < 1+r.Intn(4); k++ {
		f := sg.X.Fields[r.Intn(len(sg.X.Fields))]
		ts := sg.X.Terms(f)
		if len(ts) == 0 {
			continue
		}
		t := ts[r.Intn(len(ts))]
		terms = append(terms, sTerm{f, []byte(t)})
		for _, d := range sg.X.DocsOf(f, t) {
			want.Add(uint32(d))
		}
	}
	got, err := sg.S.DocsMatchingTerms(terms)
	if err != nil {
		return "error: " + err.Error()
	}
	if !got.Equals(want) {
		return fmt.Sprintf("DocsMatchingTerms gave %v, expected %v", clipS(got.String(), 100), clipS(want.String(), 100))
	}
	return ""
}

func opStats(sg *gen.Seg, f string) string {
	cs, err := sg.S.CollectionStats(f)
	if err != nil {
		return "error: " + err.Error()
	}
	w := sg.X.Stats(f)
	if cs.TotalDocumentCount() != w.Total || cs.DocumentCount() != w.Docs || cs.SumTotalTermFrequency() != w.SumTTF {
		return fmt.Sprintf("CollectionStats(%q) = (%d,%d,%d), expected %+v", f, cs.TotalDocumentCount(), cs.DocumentCount(), cs.SumTotalTermFrequency(), w)
	}
	return ""
}

// ---------- re-entrancy (plain build, deterministic)

func c09NestedOp(c *runner.Ctx, r *rand.Rand, sg *gen.Seg, avoidBlock int) (string, string) {
	n := len(sg.X.Docs)
	switch r.Intn(6) {
	case 0: // stored fields of a document in another block if there is one
		dn := r.Intn(n)
		for k := 0; k < 8 && dn/128 == avoidBlock; k++ {
			dn = r.Intn(n)
		}
		return "stored", opStored(sg, dn)
	case 1:
		return "dict-iter", opDictIter(sg, sg.X.Fields[r.Intn(len(sg.X.Fields))])
	case 2:
		f := sg.X.Fields[r.Intn(len(sg.X.Fields))]
		ts := sg.X.Terms(f)
		if len(ts) == 0 {
			return "dict-iter", opDictIter(sg, f)
		}
		d, err := sg.S.Dictionary(f)
		if err != nil {
			return "postings", "error: " + err.Error()
		}
		before := c.Violated()
		_, _, _, ok := navigate(c, r, navReq{sg: sg, dict: d, field: f, term: ts[r.Intn(len(ts))], fl: [3]bool{true, true, true}, stopAt: 1, sig: "nested-nav:"})
		if !ok && !before {
			return "postings", "nested postings walk failed (see violation above)"
		}
		return "postings", ""
	case 3: // a FRESH doc-value reader
		dvr, err := sg.S.DocumentValueReader(sg.X.Fields)
		if err != nil {
			return "docvalues", "error: " + err.Error()
		}
		return "docvalues", opDV(sg, dvr, sg.X.Fields, r.Intn(n))
	case 4:
		return "docs-matching-terms", opDMT(sg, r)
	default:
		return "stats", opStats(sg, sg.X.Fields[r.Intn(len(sg.X.Fields))])
	}
}

func c09ReentrantRun(c *runner.Ctx) {
	r := c.R
	wo := gen.WorldOpts{MinDocs: 130, MaxDocs: 400}
	if c.Idx%8 == 0 {
		wo = gen.WorldOpts{Jumbo: true} // >2048 documents: nested doc-value visits land in different 1024-document chunks
	}
	w, err := gen.GenWorld(r, c.TmpDir, fmt.Sprintf("w%d", c.Idx), wo)
	if w = usable(c, w, err); w == nil {
		return
	}
	defer w.Close()
	for si, sg := range w.Segs {
		n := len(sg.X.Docs)
		if n == 0 {
			continue
		}
		// (a) nested reads inside a stored-field visitor
		for k := 0; k < 25; k++ {
			dn := r.Intn(n)
			want := sg.X.Docs[dn].Stored
			if len(want) == 0 {
				continue
			}
			at := r.Intn(len(want)) // nest inside the callback of this value
			var got []model.XStored
			nestedKind, nestedFail, corrupt := "", "", ""
			panicked, pmsg, stack := runner.Try(func() {
				i := 0
				sg.S.VisitStoredFields(uint64(dn), func(f string, v []byte) bool {
					before := string(v) // copy before the nested call
					if i == at {
						nestedKind, nestedFail = c09NestedOp(c, r, sg, dn/128)
						if string(v) != before {
							corrupt = fmt.Sprintf("value %d (%q) handed to the running callback changed to %q during the nested %s read", i, clipS(before, 60), clipS(string(v), 60), nestedKind)
						}
					}
					got = append(got, model.XStored{Field: f, Val: string(v)})
					i++
					return true
				})
			})
			c.Eval(1)
			desc := fmt.Sprintf("segment %d kind=%s docs=%d; outer VisitStoredFields(%d) (block %d), nested %s read inside the callback of value %d of %d", si, sg.Kind, n, dn, dn/128, nestedKind, at, len(want))
			switch {
			case panicked:
				c.Violate("reentrant:panic:"+runner.TopIceFrame(stack), "re-entering the segment from a stored-field visitor panicked: "+pmsg, stack+"\n"+desc)
			case corrupt != "":
				c.Violate("reentrant:outer-value-corrupted:stored<-"+nestedKind, corrupt, desc)
			case nestedFail != "":
				c.Violate("reentrant:nested-wrong:"+nestedKind+"-in-stored", "nested read returned a wrong result: "+nestedFail, desc)
			case fmt.Sprintf("%q", got) != fmt.Sprintf("%q", want):
				c.Violate("reentrant:outer-wrong:stored<-"+nestedKind, fmt.Sprintf("outer visit delivered %s, expected %s", clipS(fmt.Sprintf("%q", got), 300), clipS(fmt.Sprintf("%q", want), 300)), desc)
			default:
				c.Inc("nested_in_stored."+nestedKind, 1)
				if nestedKind == "stored" {
					c.Nontrivial(hashAny(c.Idx, si, dn, at, k), 1)
				}
				if c.WantSample() && nestedKind == "stored" {
					c.Sample(map[string]interface{}{"phase": "reentrant", "segment_kind": sg.Kind, "docs": n, "outer": fmt.Sprintf("VisitStoredFields(%d) [block %d], %d values", dn, dn/128, len(want)),
						"nested": fmt.Sprintf("inside the callback of value %d: VisitStoredFields of a document in another block", at), "outer_result_equal_to_specification": true, "value_in_callback_unchanged_by_nested_call": true})
				}
			}
		}
		// (b) nested reads inside a doc-value visitor
		dvr, err := sg.S.DocumentValueReader(sg.X.Fields)
		if err != nil {
			continue
		}
		for k := 0; k < 15; k++ {
			dn := r.Intn(n)
			got := map[string][]string{}
			nestedKind, nestedFail := "", ""
			first := true
			panicked, pmsg, stack := runner.Try(func() {
				dvr.VisitDocumentValues(uint64(dn), func(f string, t []byte) {
					before := string(t)
					if first {
						first = false
						switch r.Intn(3) {
						case 0:
							nestedKind, nestedFail = "stored", opStored(sg, r.Intn(n))
						case 1:
							nestedKind, nestedFail = "dict-iter", opDictIter(sg, sg.X.Fields[r.Intn(len(sg.X.Fields))])
						default:
							dvr2, _ := sg.S.DocumentValueReader(sg.X.Fields)
							nestedKind, nestedFail = "docvalues-fresh-reader", opDV(sg, dvr2, sg.X.Fields, r.Intn(n))
						}
						if string(t) != before && nestedFail == "" {
							nestedFail = "the term handed to the running callback changed during the nested read"
						}
					}
					got[f] = append(got[f], string(t))
				})
			})
			c.Eval(1)
			want := map[string][]string{}
			for _, f := range sg.X.Fields {
				if v := sg.X.Docs[dn].DV[f]; len(v) > 0 {
					want[f] = v
				}
			}
			desc := fmt.Sprintf("segment %d kind=%s docs=%d; outer VisitDocumentValues(%d), nested %s read inside the first callback", si, sg.Kind, n, dn, nestedKind)
			switch {
			case panicked:
				c.Violate("reentrant:panic:"+runner.TopIceFrame(stack), "re-entering the segment from a doc-value visitor panicked: "+pmsg, stack+"\n"+desc)
			case nestedFail != "":
				c.Violate("reentrant:nested-wrong:"+nestedKind+"-in-docvalues", "nested read returned a wrong result: "+nestedFail, desc)
			case fmt.Sprint(got) != fmt.Sprint(want):
				c.Violate("reentrant:outer-wrong:docvalues<-"+nestedKind, fmt.Sprintf("outer doc-value visit delivered %q, expected %q", got, want), desc)
			default:
				if nestedKind != "" {
					c.Inc("nested_in_docvalues."+nestedKind, 1)
				}
			}
		}
	}
	if c.WantSample() {
		c.Sample(map[string]interface{}{"phase": "reentrant", "segments": len(w.Segs), "pattern": "inside the callback of value k of VisitStoredFields(d): one of {VisitStoredFields(other block), dictionary iteration, postings walk with all flags, fresh DocumentValueReader visit, DocsMatchingTerms, CollectionStats}; the value handed to the callback is compared before/after the nested call and the whole outer result with the specification"})
	}
}

// ---------- concurrency under the race detector

var c09OpNames = []string{"stored", "dict-iter", "postings", "docvalues", "docs-matching-terms", "stats", "writeto", "merge"}

func c09ConcurrentRun(c *runner.Ctx) {
	r := c.R
	wo := gen.WorldOpts{MinDocs: 260, MaxDocs: 420, Bases: 2}
	if c.Idx%3 == 0 {
		wo = gen.WorldOpts{Jumbo: true, Bases: 2} // concurrent doc-value readers in different 1024-document chunks
	}
	w, err := gen.GenWorld(r, c.TmpDir, fmt.Sprintf("w%d", c.Idx), wo)
	if w = usable(c, w, err); w == nil {
		return
	}
	defer w.Close()
	// few shared segments, many goroutines
	segs := w.NonEmpty()
	if len(segs) > 4 {
		r.Shuffle(len(segs), func(i, j int) { segs[i], segs[j] = segs[j], segs[i] })
		segs = segs[:4]
	}
	if len(segs) == 0 {
		return
	}
	// reference results taken alone, before any concurrency: persisted bytes and a merge of the shared segments
	refBytes := make([][]byte, len(segs))
	for i, sg := range segs {
		b, _, err := gen.Persist(sg.S)
		if err != nil {
			c.Note("persist failed (C04's business)")
			return
		}
		refBytes[i] = append([]byte(nil), b...)
	}
	mergeIn := segs
	if len(mergeIn) > 2 {
		mergeIn = mergeIn[:2]
	}
	var mergeDrops []*roaring.Bitmap
	for _, s := range mergeIn {
		mergeDrops = append(mergeDrops, gen.Drops(r, len(s.X.Docs), pick(r, 0, 2, 5)))
	}
	mergeRef, _, _, err := gen.MergeBytes(mergeIn, mergeDrops, 1025)
	if err != nil {
		c.Note("merge failed (C02's business)")
		return
	}
	mergeRef = append([]byte(nil), mergeRef...)
	// replace every shared segment by a freshly loaded copy: its FST cache is cold, so the goroutines'
	// first dictionary opens race with each other (and with the mergers) on the lazy load path
	cold := make([]*gen.Seg, len(segs))
	for i, sg := range segs {
		t := &gen.Seg{X: sg.X, Mode: sg.Mode, Bytes: refBytes[i]}
		ct, err := t.Reload(c.TmpDir, i%2 == 1)
		if err != nil {
			c.Note("reload failed (C04's business)")
			return
		}
		defer ct.Close()
		cold[i] = ct
	}
	segs = cold
	mergeIn = segs[:len(mergeIn)]
	readers := 12
	mergers := 2
	opsPer := tierN(c.Tier, 250, 1200)
	var inflight [8]int32
	var overlap [8][8]int64
	var stop int32
	var wg sync.WaitGroup
	fail := func(kind, msg, desc string) {
		if atomic.CompareAndSwapInt32(&stop, 0, 1) || true {
			c.Violate("concurrent:wrong-result:"+kind, "a reader observed something it would not observe alone: "+msg, desc)
		}
	}
	track := func(op int) func() {
		atomic.AddInt32(&inflight[op], 1)
		for o := range inflight {
			if n := atomic.LoadInt32(&inflight[o]); n > 0 && (o != op || n > 1) {
				atomic.AddInt64(&overlap[op][o], 1)
			}
		}
		return func() { atomic.AddInt32(&inflight[op], -1) }
	}
	seeds := make([]int64, readers+mergers)
	for i := range seeds {
		seeds[i] = r.Int63()
	}
	for g := 0; g < readers; g++ {
		wg.Add(1)
		go func(g int) {
			defer wg.Done()
			gr := rand.New(rand.NewSource(seeds[g]))
			dvrs := map[int]segment.DocumentValueReader{}
			var prevPL segment.PostingsList // goroutine-local objects re-used as prealloc (legal: never shared)
			var prevPI segment.PostingsIterator
			panicked, pmsg, stack := runner.Try(func() {
				for k := 0; k < opsPer && atomic.LoadInt32(&stop) == 0; k++ {
					si := gr.Intn(len(segs))
					sg := segs[si]
					n := len(sg.X.Docs)
					op := gr.Intn(7)
					if op == 6 && gr.Intn(4) > 0 {
						op = 0
					}
					done := track(op)
					msg := ""
					switch op {
					case 0:
						msg = opStored(sg, gr.Intn(n))
					case 1:
						msg = opDictIter(sg, sg.X.Fields[gr.Intn(len(sg.X.Fields))])
					case 2:
						f := sg.X.Fields[gr.Intn(len(sg.X.Fields))]
						ts := sg.X.Terms(f)
						if len(ts) > 0 {
							d, err := sg.S.Dictionary(f)
							if err != nil {
								msg = "error: " + err.Error()
							} else {
								full := sg.X.DocsOf(f, ts[0])
								term := ts[gr.Intn(len(ts))]
								if gr.Intn(4) == 0 { // a term the field does not have: every reader of every segment gets the library's shared empty objects, which the next lookup hands back as prealloc
									term = "absent\x00term"
								}
								q := navReq{sg: sg, dict: d, field: f, term: term, except: genExcept(gr, n, full, 0),
									fl: [3]bool{gr.Intn(2) == 0, gr.Intn(2) == 0, gr.Intn(2) == 0}, stopAt: 1, sig: "concurrent:wrong-result:postings:"}
								if gr.Intn(2) == 0 {
									q.prePL, q.prePI = prevPL, prevPI
									prevPL, prevPI = nil, nil
								}
								pl, pi, _, ok := navigate(c, gr, q)
								if !ok {
									atomic.StoreInt32(&stop, 1)
								}
								prevPL, prevPI = pl, pi
							}
						}
					case 3:
						dvr := dvrs[si]
						if dvr == nil {
							dvr, _ = sg.S.DocumentValueReader(sg.X.Fields)
							dvrs[si] = dvr
						}
						msg = opDV(sg, dvr, sg.X.Fields, gr.Intn(n))
					case 4:
						msg = opDMT(sg, gr)
					case 5:
						msg = opStats(sg, sg.X.Fields[gr.Intn(len(sg.X.Fields))])
					case 6:
						b, _, err := gen.Persist(sg.S)
						if err != nil {
							msg = "error: " + err.Error()
						} else if !bytes.Equal(b, refBytes[si]) {
							msg = "WriteTo produced different bytes than alone: " + diffAt(refBytes[si], b)
						}
					}
					done()
					c.Eval(1)
					if msg != "" {
						fail(c09OpNames[op], msg, fmt.Sprintf("goroutine %d op %d on shared segment %d (%s, %d docs) with %d reader and %d merger goroutines", g, k, si, sg.Kind, n, readers, mergers))
						return
					}
				}
			})
			if panicked {
				atomic.StoreInt32(&stop, 1)
				c.Violate("concurrent:panic:"+runner.TopIceFrame(stack), "a concurrent reader panicked: "+pmsg, stack)
			}
		}(g)
	}
	for g := 0; g < mergers; g++ {
		wg.Add(1)
		go func(g int) {
			defer wg.Done()
			panicked, pmsg, stack := runner.Try(func() {
				for k := 0; k < 1+opsPer/60 && atomic.LoadInt32(&stop) == 0; k++ {
					done := track(7)
					b, _, _, err := gen.MergeBytes(mergeIn, mergeDrops, 1025)
					done()
					c.Eval(1)
					if err != nil {
						fail("merge", "merge of the shared segments failed while readers were active: "+firstLine(err.Error()), err.Error())
						return
					}
					if !bytes.Equal(b, mergeRef) {
						fail("merge", "merge of the shared segments produced different bytes than the same merge alone: "+diffAt(mergeRef, b), "")
						return
					}
					c.Inc("concurrent_merges_equal_to_solo", 1)
				}
			})
			if panicked {
				atomic.StoreInt32(&stop, 1)
				c.Violate("concurrent:panic:"+runner.TopIceFrame(stack), "a merge running concurrently with readers panicked: "+pmsg, stack)
			}
		}(readers + g)
	}
	wg.Wait()
	// quiescent point: the segment mutex must be free
	for si, sg := range segs {
		if !ice.VerifSegmentMutexFree(sg.S) {
			c.Violate("concurrent:mutex-held-at-quiescence", fmt.Sprintf("segment %d: mutex still held with no call in flight", si), "")
		}
	}
	pairs := 0
	for a := range overlap {
		for b := range overlap[a] {
			if overlap[a][b] > 0 {
				pairs++
				c.Inc("overlap."+c09OpNames[a]+"|"+c09OpNames[b], overlap[a][b])
			}
		}
	}
	c.Max("distinct_overlapping_op_pairs", int64(pairs))
	c.Nontrivial(hashAny("concurrent", c.Phase, c.Idx, c.Seed), int64(pairs))
	if c.WantSample() {
		c.Sample(map[string]interface{}{"phase": c.Phase, "shared_segments": len(segs), "reader_goroutines": readers, "merger_goroutines": mergers, "ops_per_reader": opsPer, "distinct_overlapping_op_pairs_observed": pairs})
	}
}

// c09RacePost turns race-detector reports into verdicts (parent side).
func c09RacePost(pp *runner.ParentPhase) {
	reports, blocks := runner.ParseRaceLogs(pp.OutDir)
	pp.Agg.Counters["race_report_blocks"] += int64(blocks)
	pp.Agg.Counters["race_reports_distinct"] += int64(len(reports))
	keep := filepath.Join(runner.EvidenceDir(), "replay")
	for i, rep := range reports {
		if rep.Ice {
			os.MkdirAll(keep, 0o755)
			path := filepath.Join(keep, fmt.Sprintf("%s-race-report-%d.txt", pp.Prop.ID, i))
			os.WriteFile(path, []byte(rep.Block), 0o644)
			pp.Agg.Violations = append(pp.Agg.Violations, runner.Violation{Property: pp.Prop.ID, Phase: pp.Phase.Name, Idx: 0, Seed: pp.Seed, Tier: pp.Tier,
				Sig: "data-race:" + rep.Key, Msg: "the race detector reported unsynchronised accesses inside ice: " + rep.Key + " (full report: " + path + ")", Detail: clipS(rep.Block, 8000)})
		} else {
			pp.Inconcl = append(pp.Inconcl, "race report without an ice frame (harness race?): "+firstLine(strings.TrimSpace(rep.Block)))
		}
	}
	sort.SliceStable(pp.Agg.Violations, func(a, b int) bool { return pp.Agg.Violations[a].Sig < pp.Agg.Violations[b].Sig })
}

func init() {
	register(&runner.Property{
		ID:    "C09",
		Level: "exploration",
		Rule: "phase reentrant (plain build, deterministic): worlds with 130-400-document segments; inside the callback of a random value of VisitStoredFields(d) one nested read runs (stored fields of a document in another block, dictionary iteration, postings walk with all flags, a fresh doc-value reader, DocsMatchingTerms, CollectionStats); inside a doc-value callback: stored fields, dictionary iteration, a fresh reader; the value handed to the running callback is compared before/after the nested call, the nested result and the whole outer result with the specification. " +
			"phases concurrent/concurrent-race (plain and -race build): per world <=4 shared segments, 12 reader goroutines x 250 (thorough 1200) random operations (stored fields, dictionary iteration with counts, postings walks with exclusions and flags, per-goroutine doc-value readers, DocsMatchingTerms, CollectionStats, WriteTo compared with the bytes written alone) + 2 goroutines repeatedly merging the same segments (bytes must equal the same merge alone); every result is compared with the specification; an atomic in-flight table records which operation types really overlapped; race reports are parsed from GORACE log files, de-duplicated by the pair of outermost ice functions; VerifSegmentMutexFree at the quiescent end. " +
			"evaluations = operations checked; non-trivial = nested stored-in-stored reads (distinct by case/segment/doc) and distinct overlapping operation-type pairs per world",
		Assumptions: append([]string{"one DocumentValueReader object is not nested into itself and not shared between goroutines (object reuse, not segment re-entrancy)", "only interleavings the Go scheduler produced are covered; the race detector reports happens-before violations among accesses that executed"}, InputContract...),
		Phases: []runner.Phase{
			{Name: "reentrant", Cases: cases(40, 1000), Run: c09ReentrantRun},
			{Name: "concurrent", Cases: cases(16, 300), Run: c09ConcurrentRun, Procs: func(string) int { return 4 }},
			{Name: "concurrent-race", Race: true, Cases: cases(6, 120), Run: c09ConcurrentRun, Procs: func(string) int { return 3 }, Post: c09RacePost},
		},
		Floors: func(string) map[string]int64 {
			return map[string]int64{"nested_in_stored.stored": 200, "concurrent_merges_equal_to_solo": 20, "distinct_overlapping_op_pairs": 10, "overlap.stored|stored": 5, "overlap.stored|merge": 1}
		},
	})
}
