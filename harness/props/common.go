// Package props holds one driver + oracle per property.
package props

import (
	"encoding/json"
	"fmt"
	"math/rand"
	"strings"

	"github.com/RoaringBitmap/roaring"
	segment "github.com/blugelabs/bluge_segment_api"
	ice "github.com/blugelabs/ice/v2"

	"verif/harness/gen"
	"verif/harness/model"
	"verif/harness/observe"
	"verif/harness/runner"
)

var Registry = map[string]*runner.Property{}

func register(p *runner.Property) { Registry[p.ID] = p }

func tierN(tier string, quick, thorough int) int {
	if tier == "thorough" {
		return thorough
	}
	return quick
}

func cases(quick, thorough int) func(string) int {
	return func(t string) int { return tierN(t, quick, thorough) }
}

// InputContract is listed under assumptions in every evidence file.
var InputContract = []string{
	"norms strictly positive finite float32 (normCalc = 1/sqrt(len+1+k(field)))",
	"term frequency >= 1 and >= number of its locations; positions/offsets non-negative",
	"a location's field name is empty or names a field carried by a document of the same batch (or _id)",
	"terms of doc-value fields contain no 0xff byte",
	"Field.Length() equals the sum of that field instance's term frequencies (one C01 shape adds instances without terms that report a length of 1..9)",
	"deletion bitmaps name only existing documents; fewer than 65535 fields",
	"per field name the doc-values flag is constant across a workload",
	"only inputs, schedules and fault points produced by the seeded generators are covered",
}

// classifyDiff names the kind of the first differing line of two dumps.
func classifyDiff(exp, got string) string {
	la, lb := strings.Split(exp, "\n"), strings.Split(got, "\n")
	n := len(la)
	if len(lb) < n {
		n = len(lb)
	}
	at := n
	for i := 0; i < n; i++ {
		if la[i] != lb[i] {
			at = i
			break
		}
	}
	e, g := "", ""
	if at < len(la) {
		e = la[at]
	}
	if at < len(lb) {
		g = lb[at]
	}
	kind := func(l string) string {
		switch {
		case strings.HasPrefix(l, "fields="):
			return "fields"
		case strings.HasPrefix(l, "F ") && strings.Contains(l, " stats "):
			return "stats"
		case strings.HasPrefix(l, "F "):
			return "term"
		case strings.HasPrefix(l, "  d="):
			return "posting"
		case strings.HasPrefix(l, "D ") && strings.Contains(l, " stored="):
			return "stored"
		case strings.HasPrefix(l, "D ") && strings.Contains(l, " dv"):
			return "docvalues"
		case l == "":
			return "end"
		}
		return "other"
	}
	ke, kg := kind(e), kind(g)
	if ke == "posting" && kg == "posting" {
		// which component differs
		fe, fg := strings.Fields(e), strings.Fields(g)
		if len(fe) >= 4 && len(fg) >= 4 {
			switch {
			case fe[0] != fg[0]:
				return "posting-docnum"
			case fe[1] != fg[1]:
				return "posting-freq"
			case fe[2] != fg[2]:
				return "posting-norm"
			default:
				return "posting-locations"
			}
		}
	}
	if ke == kg {
		return ke
	}
	return ke + "/" + kg
}

// compare observes a segment and compares with the model; reports a violation
// on c and returns false on mismatch.
func compare(c *runner.Ctx, what string, s segment.Segment, x *model.XSeg, o model.DumpOpts, ctxDesc func() string) bool {
	exp := x.Dump(o)
	got, err := observe.Observe(s, o)
	if err != nil {
		c.Violate("observe-error:"+what+":"+errClass(err), fmt.Sprintf("%s: reading the segment failed: %v", what, firstLine(err.Error())), err.Error()+"\n"+ctxDesc())
		return false
	}
	if exp != got {
		c.Violate("mismatch:"+what+":"+classifyDiff(exp, got), fmt.Sprintf("%s: observation differs from the specification at %s", what, model.FirstDiff(exp, got)), ctxDesc())
		return false
	}
	return true
}

func errClass(err error) string {
	s := err.Error()
	if strings.HasPrefix(s, "panic") || strings.Contains(s, "panic:") || strings.Contains(s, "panic in") {
		if i := strings.Index(s, runner.IceFrame); i >= 0 {
			return "panic:" + runner.TopIceFrame(s[i:])
		}
		return "panic"
	}
	if i := strings.IndexAny(s, ":("); i > 0 {
		return s[:i]
	}
	return "error"
}

func firstLine(s string) string {
	if i := strings.IndexByte(s, '\n'); i >= 0 {
		s = s[:i]
	}
	if len(s) > 300 {
		s = s[:300] + "…"
	}
	return s
}

func docsJSON(docs []*model.MDoc) []byte {
	b, _ := json.Marshal(docs)
	return b
}

// describeBatch is a short human-readable summary for samples.
func describeBatch(docs []*model.MDoc, mode uint32) map[string]interface{} {
	fields := map[string]bool{}
	terms := 0
	locs := 0
	for _, d := range docs {
		for _, f := range d.Fields {
			fields[f.N] = true
			for _, t := range f.Terms {
				terms++
				locs += len(t.L)
			}
		}
	}
	m := map[string]interface{}{"docs": len(docs), "chunk_mode": mode, "fields": keys(fields), "term_instances": terms, "locations": locs}
	if len(docs) > 0 && len(docs) <= 3 {
		m["documents"] = docs
	} else if len(docs) > 0 {
		m["first_document"] = docs[0]
	}
	return m
}

func keys(m map[string]bool) []string {
	var out []string
	for k := range m {
		out = append(out, k)
	}
	return out
}

// batchTraits measures what makes a batch non-trivial (from the input alone).
type batchTraits struct {
	RepeatedField, RepeatedTerm, ForeignLoc, EmptyTerm, BinaryTerm bool
}

func traits(docs []*model.MDoc) batchTraits {
	var t batchTraits
	for _, d := range docs {
		seenF := map[string]bool{}
		seenT := map[string]bool{}
		for _, f := range d.Fields {
			if seenF[f.N] {
				t.RepeatedField = true
			}
			seenF[f.N] = true
			for _, tm := range f.Terms {
				k := f.N + "\x00" + string(tm.T)
				if seenT[k] {
					t.RepeatedTerm = true
				}
				seenT[k] = true
				if len(tm.T) == 0 {
					t.EmptyTerm = true
				}
				for _, b := range tm.T {
					if b >= 0x80 || b < 0x20 {
						t.BinaryTerm = true
					}
				}
				for _, l := range tm.L {
					if l.F != "" && l.F != f.N {
						t.ForeignLoc = true
					}
				}
			}
		}
	}
	return t
}

// chunkStats walks all postings lists of a segment and reports the maximum
// number of chunks one list spans and how many lists are multi-chunk / 1-hit /
// longer than 1024 documents (coverage accounting via the VerifPostingsInfo hook).
type chunkInfo struct {
	MaxChunks, MultiChunk, OneHit, Over1024, Lists int
}

func chunkStats(sg *gen.Seg) chunkInfo {
	var ci chunkInfo
	for _, f := range sg.X.Fields {
		d, err := sg.S.Dictionary(f)
		if err != nil {
			continue
		}
		for _, t := range sg.X.Terms(f) {
			pl, err := d.PostingsList([]byte(t), nil, nil)
			if err != nil || pl == nil {
				continue
			}
			ci.Lists++
			oneHit, cs, card := ice.VerifPostingsInfo(pl)
			if oneHit {
				ci.OneHit++
				continue
			}
			if card > 1024 {
				ci.Over1024++
			}
			if cs == 0 {
				continue
			}
			chunks := map[uint64]bool{}
			for _, dn := range sg.X.DocsOf(f, t) {
				chunks[uint64(dn)/cs] = true
			}
			if len(chunks) > ci.MaxChunks {
				ci.MaxChunks = len(chunks)
			}
			if len(chunks) > 1 {
				ci.MultiChunk++
			}
		}
	}
	return ci
}

func pick(r *rand.Rand, xs ...int) int { return xs[r.Intn(len(xs))] }

func hashAny(parts ...interface{}) uint64 { return runner.Hash(parts...) }

// usable returns the world a reader-side check works on: the complete one or, after a construction
// step failed (noted: it is C01/C02/C04's business and makes the run inconclusive unless a violation
// is found), the segments that were built before the failure.
func usable(c *runner.Ctx, w *gen.World, err error) *gen.World {
	if err == nil {
		return w
	}
	c.Note(fmt.Sprintf("case %d: world construction failed (C01/C02/C04's business): %s", c.Idx, firstLine(err.Error())))
	if w != nil && len(w.Segs) > 0 {
		return w
	}
	if w != nil {
		w.Close()
	}
	return nil
}

// abortedMergeHistory gives the process a hostile history before a case runs: merges (public Merger.WriteTo
// and the chunk-mode-parameterised merge writer) of two small private segments that are aborted by a failing
// writer at offsets spread over the whole file, always including offsets inside the 44-byte footer, and by a
// close channel closed part-way. Library state that survives an aborted merge (pooled buffers, scratch
// bitmaps) then meets the operations of the case. It draws from its own PRNG, so the case's stream is unchanged.
func abortedMergeHistory(c *runner.Ctx) {
	hr := rand.New(rand.NewSource(int64(c.Idx)*7919 + 17))
	sch := gen.GenSchema(hr)
	a, err := gen.BuildSeg(gen.GenBatch(hr, sch, 3+hr.Intn(12), fmt.Sprintf("ha%d", c.Idx), gen.DocOpts{Repeat: true}), 1025)
	if err != nil {
		return
	}
	defer a.Close()
	b, err := gen.BuildSeg(gen.GenBatch(hr, sch, 2+hr.Intn(8), fmt.Sprintf("hb%d", c.Idx), gen.DocOpts{}), 1025)
	if err != nil {
		return
	}
	defer b.Close()
	ss := []segment.Segment{a.S, b.S}
	dr := []*roaring.Bitmap{nil, gen.Drops(hr, len(b.X.Docs), 2)}
	ref, _, _, err := gen.MergeBytes([]*gen.Seg{a, b}, dr, 0)
	if err != nil || len(ref) < 50 {
		return
	}
	L := len(ref)
	offs := []int{L - 1, L - 1 - hr.Intn(44), L - 44, hr.Intn(L), hr.Intn(L), L/2 + hr.Intn(L/2)}
	for i, at := range offs {
		fw := &failWriter{at: at}
		runner.Try(func() {
			if i%2 == 0 {
				_, err = ice.Merge(ss, dr, 0).WriteTo(fw, nil)
			} else {
				_, _, err = ice.VerifMerge(ss, dr, fw, 1025, nil)
			}
		})
		if err != nil {
			c.Inc("history.aborted_merges", 1)
		}
	}
	for i := 0; i < 3; i++ { // a 1-byte merge buffer lets the writer see (and cancel at) every offset
		ch := make(chan struct{})
		cw := &cancelWriter{ch: ch, at: hr.Intn(L)}
		runner.Try(func() { _, err = ice.Merge(ss, dr, 1).WriteTo(cw, ch) })
		if err != nil {
			c.Inc("history.cancelled_merges", 1)
		}
	}
}
