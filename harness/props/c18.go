package props

import (
	"fmt"

	"github.com/RoaringBitmap/roaring"
	segment "github.com/blugelabs/bluge_segment_api"

	"verif/harness/gen"
	"verif/harness/model"
	"verif/harness/runner"
)

// C18 — DocsMatchingTerms returns exactly the union of the listed terms' documents.

func c18Run(c *runner.Ctx) {
	r := c.R
	w, err := gen.GenWorld(r, c.TmpDir, fmt.Sprintf("w%d", c.Idx), gen.WorldOpts{MaxDocs: 140, Jumbo: c.Idx%150 == 0})
	if w = usable(c, w, err); w == nil {
		// merges/loads are other properties' business; DocsMatchingTerms can still be examined on a built segment alone
		var docs []*model.MDoc
		if c.Idx%150 == 0 {
			docs, _ = gen.JumboBatch(r, 2100+r.Intn(600), fmt.Sprintf("f%d", c.Idx))
		} else {
			docs = gen.GenBatch(r, gen.GenSchema(r), 20+r.Intn(100), fmt.Sprintf("f%d", c.Idx), gen.DocOpts{Repeat: true})
		}
		sg, berr := gen.BuildSeg(docs, 1025)
		if berr != nil {
			c.Note("world construction failed (C01/C02/C04's business): " + firstLine(err.Error()))
			return
		}
		sg.X.Index()
		w = &gen.World{Segs: []*gen.Seg{sg}}
		c.Inc("fallback_single_built_segment", 1)
	}
	defer w.Close()
	unknownFields := []string{"no-such-field", "", "zzz", "_idx"}
	for si, sg := range w.Segs {
		// candidate (field, term) pairs
		type ft struct{ f, t string }
		var present []ft
		for _, f := range sg.X.Fields {
			for _, t := range sg.X.Terms(f) {
				present = append(present, ft{f, t})
			}
		}
		nLists := 40
		for li := 0; li < nLists; li++ {
			n := r.Intn(21)
			if li == 0 {
				n = 0
			}
			var terms []segment.Term
			var descr []string
			want := roaring.New()
			kinds := map[string]bool{}
			lastField := ""
			for k := 0; k < n; k++ {
				var f, t string
				switch x := r.Intn(10); {
				case x < 5 && len(present) > 0: // present term
					p := present[r.Intn(len(present))]
					f, t = p.f, p.t
					kinds["present"] = true
				case x < 6 && len(terms) > 0: // repeat an earlier entry
					e := terms[r.Intn(len(terms))]
					f, t = e.Field(), string(e.Term())
					kinds["repeated"] = true
				case x < 8: // absent term in a known field
					f = sg.X.Fields[r.Intn(len(sg.X.Fields))]
					t = fmt.Sprintf("absent-%d", r.Intn(5))
					kinds["absent-term"] = true
				default: // unknown field (may carry a term that exists elsewhere)
					f = unknownFields[r.Intn(len(unknownFields))]
					if sg.X.HasField(f) {
						f = "no-such-field"
					}
					t = "t1"
					if len(present) > 0 && r.Intn(2) == 0 {
						t = present[r.Intn(len(present))].t
					}
					kinds["unknown-field"] = true
					if k == 0 {
						kinds["unknown-field-first"] = true
					}
					if k == n-1 {
						kinds["unknown-field-last"] = true
					}
				}
				if k > 0 && f != lastField {
					kinds["field-switch"] = true
				}
				lastField = f
				terms = append(terms, sTerm{f, []byte(t)})
				descr = append(descr, fmt.Sprintf("%q:%q", f, t))
				for _, dn := range sg.X.DocsOf(f, t) {
					want.Add(uint32(dn))
				}
			}
			c.Eval(1)
			desc := func() string {
				return fmt.Sprintf("segment %d: kind=%s mode=%d docs=%d fields=%q\nterms=%v\nexpected=%v", si, sg.Kind, sg.Mode, len(sg.X.Docs), sg.X.Fields, descr, want.ToArray())
			}
			var got *roaring.Bitmap
			var err error
			panicked, msg, stack := runner.Try(func() { got, err = sg.S.DocsMatchingTerms(terms) })
			cls := "known-fields-only"
			if kinds["unknown-field"] {
				cls = "with-unknown-field"
			}
			switch {
			case panicked:
				c.Violate("panic:"+cls+":"+runner.TopIceFrame(stack), fmt.Sprintf("DocsMatchingTerms panicked (%s): %s", cls, msg), stack+"\n"+desc())
				continue
			case err != nil:
				c.Violate("error:"+cls, fmt.Sprintf("DocsMatchingTerms returned an error (%s): %v", cls, err), desc())
				continue
			case got == nil || !got.Equals(want):
				c.Violate("wrong-set:"+cls, fmt.Sprintf("DocsMatchingTerms returned %v, expected %v", arr(got), want.ToArray()), desc())
				continue
			}
			for k := range kinds {
				c.Inc("lists_with."+k, 1)
			}
			if len(kinds) >= 2 && !want.IsEmpty() {
				c.Nontrivial(hashAny(fmt.Sprint(descr), sg.Kind, len(sg.X.Docs), fmt.Sprint(want.ToArray())), 1)
			}
			if c.WantSample() && len(kinds) >= 3 {
				c.Sample(map[string]interface{}{"segment_kind": sg.Kind, "docs": len(sg.X.Docs), "terms": descr, "result": want.ToArray()})
			}
		}
		c.Inc("segments."+sg.Kind, 1)
	}
}

func arr(b *roaring.Bitmap) interface{} {
	if b == nil {
		return nil
	}
	return b.ToArray()
}

func init() {
	register(&runner.Property{
		ID:    "C18",
		Level: "exploration",
		Rule: "cases = worlds; per segment 40 PRNG lists of 0..20 (field, term) pairs mixing present terms (1-hit and general), repeated entries, absent terms, unknown fields (first/middle/last/only, empty field name) and field switches; oracle = result bitmap == union computed from the specification, no error, no panic; " +
			"non-trivial = list mixing >=2 entry kinds with a non-empty expected result; distinct by (list, segment kind/size, expected set)",
		Assumptions: InputContract,
		Phases:      []runner.Phase{{Name: "union", Cases: cases(1500, 40000), Run: c18Run}},
		Floors: func(string) map[string]int64 {
			return map[string]int64{"lists_with.unknown-field-first": 100, "lists_with.unknown-field-last": 100, "lists_with.field-switch": 1000}
		},
	})
}
