package props

import (
	"bufio"
	"bytes"
	"crypto/sha256"
	"encoding/hex"
	"errors"
	"fmt"
	"io"
	"math/rand"
	"os"
	"os/exec"
	"path/filepath"
	"reflect"
	"runtime"
	"strconv"
	"strings"
	"sync/atomic"
	"time"
	"unsafe"

	"github.com/RoaringBitmap/roaring"
	segment "github.com/blugelabs/bluge_segment_api"
	ice "github.com/blugelabs/ice/v2"

	"verif/harness/gen"
	"verif/harness/model"
	"verif/harness/observe"
	"verif/harness/runner"
)

// C19 — a failed storage read is reported and never wedges the segment.

var errInjectedRead = errors.New("injected read failure (EIO)")

// faultyReaderAt wraps the file of a file-backed segment; reads with index in
// [from, to) fail. Indices count ReadAt calls since creation.
type faultyReaderAt struct {
	r        io.ReaderAt
	n        int64
	from, to int64
	failed   int64
}

func (f *faultyReaderAt) ReadAt(p []byte, off int64) (int, error) {
	idx := atomic.AddInt64(&f.n, 1) - 1
	if idx >= atomic.LoadInt64(&f.from) && idx < atomic.LoadInt64(&f.to) {
		atomic.AddInt64(&f.failed, 1)
		return 0, errInjectedRead
	}
	return f.r.ReadAt(p, off)
}

func (f *faultyReaderAt) set(from, to int64) {
	atomic.StoreInt64(&f.from, from)
	atomic.StoreInt64(&f.to, to)
}

const never = int64(1) << 60

// loadFaulty opens path file-backed and interposes a faultyReaderAt between
// bluge_segment_api.Data and the *os.File (Data only has a constructor for
// *os.File; its unexported io.ReaderAt field is replaced through reflect/unsafe,
// which is equivalent to the file itself returning errors).
func loadFaulty(path string) (segment.Segment, *faultyReaderAt, *os.File, error) {
	f, err := os.Open(path)
	if err != nil {
		return nil, nil, nil, err
	}
	data, err := segment.NewDataFile(f)
	if err != nil {
		f.Close()
		return nil, nil, nil, err
	}
	fr := &faultyReaderAt{r: f, from: never, to: never}
	fld := reflect.ValueOf(data).Elem().FieldByName("r")
	if !fld.IsValid() {
		f.Close()
		return nil, nil, nil, fmt.Errorf("bluge_segment_api.Data has no field r")
	}
	*(*io.ReaderAt)(unsafe.Pointer(fld.UnsafeAddr())) = fr
	var s segment.Segment
	panicked, msg, _ := runner.Try(func() { s, err = ice.Load(data) })
	if panicked {
		err = fmt.Errorf("panic in Load: %s", msg)
	}
	if err != nil {
		f.Close()
		return nil, nil, nil, err
	}
	return s, fr, f, nil
}

// ---------- the script: a deterministic sequence of read calls with fresh objects

type c19Op struct {
	name string
	run  func(s segment.Segment) (result string, empty bool, err error)
	// kept != "": the op works on an object kept across calls of one script run
	// (doc-value reader, dictionary). Once such an object has returned an error
	// its later answers are not compared (the API does not define an object's
	// state after an error), but it must still neither panic nor block.
	kept string
}

// c19State holds the objects kept across the calls of one script run.
type c19State struct {
	dvr     segment.DocumentValueReader
	dicts   map[string]segment.Dictionary
	tainted map[string]bool
}

var c19St *c19State // one script runs at a time per process

func c19NewState() {
	c19St = &c19State{dicts: map[string]segment.Dictionary{}, tainted: map[string]bool{}}
}

func hashStr(s string) string {
	h := sha256.Sum256([]byte(s))
	return hex.EncodeToString(h[:6])
}

// c19Script derives the operation list from the (healthy) model of the segment.
func c19Script(r *rand.Rand, x *model.XSeg, others []segment.Segment) []c19Op {
	var ops []c19Op
	n := len(x.Docs)
	fields := append([]string{}, x.Fields...)
	if len(fields) > 3 { // _id plus two others: bounds the script length
		fields = append([]string{fields[0]}, fields[1+r.Intn(len(fields)-2):][:2]...)
	}
	add := func(name string, f func(s segment.Segment) (string, bool, error)) {
		ops = append(ops, c19Op{name: name, run: f})
	}
	for _, f := range fields {
		f := f
		add("Dictionary+Contains("+f+")", func(s segment.Segment) (string, bool, error) {
			d, err := s.Dictionary(f)
			if err != nil {
				return "", false, err
			}
			ts := x.Terms(f)
			t := "absent"
			if len(ts) > 0 {
				t = ts[len(ts)/2]
			}
			ok, err := d.Contains([]byte(t))
			return fmt.Sprint(ok), !ok, err
		})
		add("DictionaryIterate("+f+")", func(s segment.Segment) (string, bool, error) {
			d, err := s.Dictionary(f)
			if err != nil {
				return "", false, err
			}
			it := d.Iterator(nil, nil, nil)
			var b strings.Builder
			k := 0
			for {
				e, err := it.Next()
				if err != nil {
					it.Next() // polling again after an error must not panic
					return b.String(), false, err // what was delivered before the error is checked against the healthy prefix
				}
				if e == nil {
					break
				}
				fmt.Fprintf(&b, "%q:%d ", e.Term(), e.Count())
				k++
				if k >= 25 { // bounded: every entry costs several reads on file-backed data
					break
				}
			}
			return b.String(), k == 0, nil
		})
		ts := x.Terms(f)
		for k := 0; k < 2 && len(ts) > 0; k++ {
			t := ts[r.Intn(len(ts))]
			fl := [3]bool{r.Intn(2) == 0, r.Intn(2) == 0, r.Intn(3) > 0}
			adv := r.Intn(2) == 0
			add(fmt.Sprintf("Postings(%s,%q,%s)", f, t, flagsStr(fl)), func(s segment.Segment) (string, bool, error) {
				d, err := s.Dictionary(f)
				if err != nil {
					return "", false, err
				}
				pl, err := d.PostingsList([]byte(t), nil, nil)
				if err != nil {
					return "", false, err
				}
				it, err := pl.Iterator(fl[0], fl[1], fl[2], nil)
				if err != nil {
					return "", false, err
				}
				var b strings.Builder
				fmt.Fprintf(&b, "count=%d ", pl.Count())
				k := 0
				for {
					var p segment.Posting
					var err error
					if adv && k == 1 {
						p, err = it.Advance(uint64(n / 2))
					} else {
						p, err = it.Next()
					}
					if err != nil {
						// a caller that polls the same iterator again after an error must get an error or
						// the end, never a panic (a panic here escapes to the oracle as a violation)
						it.Next()
						it.Next()
						// ... also after handing it a new "actual" bitmap (what a searcher's optimisation pass does); general lists only
						if one, _, _ := ice.VerifPostingsInfo(pl); !one {
							if opt, isOpt := it.(segment.OptimizablePostingsIterator); isOpt {
								if ab := opt.ActualBitmap(); ab != nil {
									opt.ReplaceActual(ab.Clone())
									it.Next()
									it.Next()
								}
							}
						}
						return b.String(), false, err // what was delivered before the error is checked against the healthy prefix
					}
					if p == nil {
						break
					}
					fmt.Fprintf(&b, "%d/%d/%x/%v ", p.Number(), p.Frequency(), p.Norm(), observe.Locs(p))
					k++
					if k >= 25 {
						break
					}
				}
				return b.String(), k == 0 && pl.Count() == 0, nil
			})
		}
	}
	// stored fields over (up to) two blocks
	var docs []int
	if n > 0 {
		docs = []int{0, n - 1, r.Intn(n), n / 2}
	}
	for _, dn := range docs {
		dn := dn
		add(fmt.Sprintf("VisitStoredFields(%d)", dn), func(s segment.Segment) (string, bool, error) {
			var b strings.Builder
			k := 0
			err := s.VisitStoredFields(uint64(dn), func(f string, v []byte) bool {
				fmt.Fprintf(&b, "%q=%q ", f, v)
				k++
				return true
			})
			return b.String(), k == 0, err
		})
	}
	// doc values with a fresh reader, a few documents (two chunks when the segment is large)
	if n > 0 {
		dvDocs := []int{0, n - 1, r.Intn(n)}
		if n > 1100 {
			dvDocs = []int{3, 1030, 5, n - 1}
		}
		add(fmt.Sprintf("DocValues%v", dvDocs), func(s segment.Segment) (string, bool, error) {
			dvr, err := s.DocumentValueReader(fields)
			if err != nil {
				return "", false, err
			}
			var b strings.Builder
			k := 0
			for _, dn := range dvDocs {
				err := dvr.VisitDocumentValues(uint64(dn), func(f string, t []byte) {
					fmt.Fprintf(&b, "%d:%q=%q ", dn, f, t)
					k++
				})
				if err != nil {
					return b.String(), false, err // what was delivered before the error is checked against the healthy prefix
				}
			}
			return b.String(), k == 0, nil
		})
	}
	// the same DocumentValueReader kept across several calls of the script
	if n > 0 {
		for k := 0; k < 4; k++ {
			dn := r.Intn(n)
			if n > 1100 {
				dn = []int{2, 1030, 7, 1100 + r.Intn(n-1100)}[k]
			}
			ops = append(ops, c19Op{name: fmt.Sprintf("KeptDocValueReader(%d)", dn), kept: "dvr", run: func(s segment.Segment) (string, bool, error) {
				st := c19St
				if st.dvr == nil {
					dvr, err := s.DocumentValueReader(fields)
					if err != nil {
						return "", false, err
					}
					st.dvr = dvr
				}
				var b strings.Builder
				k := 0
				err := st.dvr.VisitDocumentValues(uint64(dn), func(f string, t []byte) {
					fmt.Fprintf(&b, "%q=%q ", f, t)
					k++
				})
				return b.String(), k == 0, err
			}})
		}
	}
	// one Dictionary per field kept across calls
	for _, f := range fields {
		f := f
		ts := x.Terms(f)
		for k := 0; k < 2 && len(ts) > 0; k++ {
			t := ts[r.Intn(len(ts))]
			ops = append(ops, c19Op{name: fmt.Sprintf("KeptDictionary(%s).PostingsList(%q)", f, t), kept: "dict:" + f, run: func(s segment.Segment) (string, bool, error) {
				st := c19St
				d := st.dicts[f]
				if d == nil {
					var err error
					d, err = s.Dictionary(f)
					if err != nil {
						return "", false, err
					}
					st.dicts[f] = d
				}
				pl, err := d.PostingsList([]byte(t), nil, nil)
				if err != nil {
					return "", false, err
				}
				it, err := pl.Iterator(true, true, false, nil)
				if err != nil {
					return "", false, err
				}
				var b strings.Builder
				fmt.Fprintf(&b, "count=%d ", pl.Count())
				for k := 0; k < 10; k++ {
					p, err := it.Next()
					if err != nil {
						return b.String(), false, err // what was delivered before the error is checked against the healthy prefix
					}
					if p == nil {
						break
					}
					fmt.Fprintf(&b, "%d/%d ", p.Number(), p.Frequency())
				}
				return b.String(), pl.Count() == 0, nil
			}})
		}
	}
	// DocsMatchingTerms
	var terms []segment.Term
	for k := 0; k < 4; k++ {
		f := fields[r.Intn(len(fields))]
		if ts := x.Terms(f); len(ts) > 0 {
			terms = append(terms, sTerm{f, []byte(ts[r.Intn(len(ts))])})
		}
	}
	add("DocsMatchingTerms", func(s segment.Segment) (string, bool, error) {
		bm, err := s.DocsMatchingTerms(terms)
		if err != nil {
			return "", false, err
		}
		return bm.String(), bm.IsEmpty(), nil
	})
	add("CollectionStats", func(s segment.Segment) (string, bool, error) {
		cs, err := s.CollectionStats(fields[len(fields)-1])
		if err != nil {
			return "", false, err
		}
		return fmt.Sprint(cs.TotalDocumentCount(), cs.DocumentCount(), cs.SumTotalTermFrequency()), false, nil
	})
	add("WriteTo", func(s segment.Segment) (string, bool, error) {
		var buf bytes.Buffer
		_, err := s.WriteTo(&buf, nil)
		if err != nil {
			return "", false, err
		}
		return hashStr(buf.String()), false, nil
	})
	add("MergeInput", func(s segment.Segment) (string, bool, error) {
		var buf bytes.Buffer
		ins := append([]segment.Segment{s}, others...)
		drops := make([]*roaring.Bitmap, len(ins))
		_, err := ice.Merge(ins, drops, 0).WriteTo(&buf, nil)
		if err != nil {
			return "", false, err
		}
		return hashStr(buf.String()), false, nil
	})
	// the order is shuffled (which caches are warm when the fault starts), then the whole script again ("later calls")
	r.Shuffle(len(ops), func(i, j int) { ops[i], ops[j] = ops[j], ops[i] })
	ops = append(ops, ops...)
	return ops
}

type c19Outcome struct {
	res     string
	empty   bool
	err     bool
	tainted bool // answer of a kept object that had already returned an error: not compared
	panicS  string
	mutexOK bool
}

func c19RunOp(s segment.Segment, op c19Op) c19Outcome {
	var o c19Outcome
	var err error
	panicked, msg, stack := runner.Try(func() { o.res, o.empty, err = op.run(s) })
	if panicked {
		o.panicS = msg + "\n" + stack
	}
	o.err = err != nil
	if op.kept != "" && c19St != nil {
		if c19St.tainted[op.kept] && o.panicS == "" {
			o.err, o.tainted = true, true // answers of an object that already returned an error are not compared
		}
		if err != nil {
			c19St.tainted[op.kept] = true
		}
	}
	o.mutexOK = ice.VerifSegmentMutexFree(s)
	return o
}

// c19Faulted runs the script against a fresh load of path with the read fault
// window [from, from+width) (width<0: permanent), compares every outcome with
// the healthy outcomes and then, with the fault lifted, runs the script again.
func c19Faulted(c *runner.Ctx, path string, ops []c19Op, healthy []c19Outcome, from int64, width int64, desc string) (reached bool, ok bool) {
	s, fr, f, err := loadFaulty(path)
	if err != nil {
		c.Note("fresh load failed: " + err.Error())
		return false, true
	}
	defer f.Close()
	to := never
	if width >= 0 {
		to = from + width
	}
	fr.set(from, to)
	mode := "permanent"
	if width >= 0 {
		mode = fmt.Sprintf("transient(%d reads)", width)
	}
	type res struct{ ok bool }
	done := make(chan res, 1)
	var trace []string
	go func() {
		c19NewState()
		check := func(i int, op c19Op, o c19Outcome, phase string) bool {
			faultSeen := atomic.LoadInt64(&fr.failed) > 0
			where := fmt.Sprintf("%s; read fault %s starting at ReadAt #%d; op %d %s (%s)\ncalls so far: %s", desc, mode, from, i, op.name, phase, strings.Join(trace, " "))
			switch {
			case o.panicS != "":
				c.Violate("panic:"+phase+":"+runner.TopIceFrame(o.panicS), fmt.Sprintf("%s panicked %s: %s", op.name, phase, firstLine(o.panicS)), o.panicS+"\n"+where)
				return false
			case !o.mutexOK:
				c.Violate("mutex-leaked:"+phase, fmt.Sprintf("after %s returned the segment mutex is still held: the next call needing it blocks forever", op.name), where)
				return false
			case o.err && !o.tainted && !strings.HasPrefix(healthy[i].res, o.res):
				c.Violate("wrong-partial-result:"+phase+":"+strings.SplitN(op.name, "(", 2)[0], fmt.Sprintf("%s reported an error, but what it had delivered before the error differs from the healthy result (%s)", op.name, phase), "delivered: "+clipS(o.res, 300)+"\nhealthy: "+clipS(healthy[i].res, 300)+"\n"+where)
				return false
			case !o.err && o.res != healthy[i].res && !o.empty:
				c.Violate("wrong-result:"+phase+":"+strings.SplitN(op.name, "(", 2)[0], fmt.Sprintf("%s returned a non-empty result without error that differs from the healthy result (%s)", op.name, phase), "got: "+clipS(o.res, 300)+"\nhealthy: "+clipS(healthy[i].res, 300)+"\n"+where)
				return false
			case !o.err && o.empty && !healthy[i].empty && !faultSeen:
				c.Violate("wrong-empty-before-fault:"+strings.SplitN(op.name, "(", 2)[0], fmt.Sprintf("%s returned an empty result although no read had failed yet", op.name), where)
				return false
			}
			return true
		}
		for i, op := range ops {
			o := c19RunOp(s, op)
			tag := "ok"
			if o.err {
				tag = "err"
			} else if o.empty && !healthy[i].empty {
				tag = "empty"
			}
			trace = append(trace, fmt.Sprintf("%d:%s", i, tag))
			if len(trace) > 40 {
				trace = trace[1:]
			}
			if !check(i, op, o, "during-fault") {
				done <- res{false}
				return
			}
		}
		// lift the fault: fresh lookups must be healthy or report an error, never panic / block / differ
		fr.set(never, never)
		// (kept objects stay in use; those that already returned an error are only checked for panics / blocking)
		for i, op := range ops {
			o := c19RunOp(s, op)
			if !check(i, op, o, "after-fault-lifted") {
				done <- res{false}
				return
			}
			if !o.err && o.res != healthy[i].res {
				c.Violate("wrong-result:after-fault-lifted:"+strings.SplitN(op.name, "(", 2)[0], fmt.Sprintf("%s returned an empty/different result without error after the storage recovered", op.name), "got: "+clipS(o.res, 300)+"\nhealthy: "+clipS(healthy[i].res, 300)+"\n"+desc+fmt.Sprintf("; fault %s at ReadAt #%d", mode, from))
				done <- res{false}
				return
			}
		}
		done <- res{true}
	}()
	select {
	case r := <-done:
		return atomic.LoadInt64(&fr.failed) > 0, r.ok
	case <-time.After(60 * time.Second): // generous watchdog; the verdict needs the goroutine dump
		buf := make([]byte, 1<<20)
		buf = buf[:runtime.Stack(buf, true)]
		if strings.Contains(string(buf), "sync.(*Mutex).Lock") && strings.Contains(string(buf), runner.IceFrame) {
			c.Violate("blocked:mutex", "a read call did not return for 60 s and a goroutine is parked in sync.(*Mutex).Lock below an ice frame", string(buf)+"\n"+desc)
			return true, false
		}
		c.Note("watchdog: a faulted script did not finish in 60 s (no goroutine blocked on the segment mutex): inconclusive")
		return true, true
	}
}

func c19Prepare(c *runner.Ctx, write bool) (path string, x *model.XSeg, others []segment.Segment, closer func(), err error) {
	r := c.R
	var sg *gen.Seg
	closer = func() {}
	if c.Idx%50 == 0 && c.Phase != "strace" {
		docs, _ := gen.JumboBatch(r, 1100+r.Intn(200), fmt.Sprintf("j%d", c.Idx))
		sg, err = gen.BuildSeg(docs, 1025)
	} else {
		w, werr := gen.GenWorld(r, c.TmpDir, fmt.Sprintf("w%d", c.Idx), gen.WorldOpts{MinDocs: 2, MaxDocs: c19MaxDocs(c), NoFile: true})
		if werr != nil {
			if w != nil {
				w.Close()
			}
			return "", nil, nil, closer, werr
		}
		closer = w.Close
		ne := w.NonEmpty()
		if len(ne) == 0 {
			return "", nil, nil, closer, fmt.Errorf("empty world")
		}
		sg = ne[r.Intn(len(ne))]
		// another (memory-backed) segment to merge with
		others = append(others, ne[r.Intn(len(ne))].S)
	}
	if err != nil {
		return "", nil, nil, closer, err
	}
	if write {
		b, _, err := gen.Persist(sg.S)
		if err != nil {
			return "", nil, nil, closer, err
		}
		path = filepath.Join(c.TmpDir, fmt.Sprintf("c19-%d-%d.ice", os.Getpid(), c.Idx))
		if err := os.WriteFile(path, b, 0o644); err != nil {
			return "", nil, nil, closer, err
		}
	}
	sg.X.Index()
	return path, sg.X, others, closer, nil
}

func c19Healthy(c *runner.Ctx, path string, ops []c19Op) (healthy []c19Outcome, loadReads, totalReads int64, ok bool) {
	s, fr, f, err := loadFaulty(path)
	if err != nil {
		c.Note("healthy load failed (C04's business): " + err.Error())
		return nil, 0, 0, false
	}
	defer f.Close()
	loadReads = atomic.LoadInt64(&fr.n)
	c19NewState()
	for _, op := range ops {
		o := c19RunOp(s, op)
		if o.err || o.panicS != "" || !o.mutexOK {
			c.Note(fmt.Sprintf("healthy run of %s failed (not a storage-fault matter): err=%v panic=%s", op.name, o.err, firstLine(o.panicS)))
			return nil, 0, 0, false
		}
		healthy = append(healthy, o)
	}
	return healthy, loadReads, atomic.LoadInt64(&fr.n), true
}

// c19MaxDocs: odd cases use tiny segments whose scripts are enumerated read by read.
func c19MaxDocs(c *runner.Ctx) int {
	switch {
	case c.Idx%2 == 1:
		return 8
	case c.Phase == "strace":
		return 40
	}
	return 120
}

// in-process enumeration of every ReadAt index
func c19InprocRun(c *runner.Ctx) {
	path, x, others, closer, err := c19Prepare(c, true)
	defer closer()
	if err != nil {
		c.Note(fmt.Sprintf("case %d: preparing the segment failed (C01/C02/C04's business): %s", c.Idx, firstLine(err.Error())))
		return
	}
	defer os.Remove(path)
	ops := c19Script(rand.New(rand.NewSource(c.R.Int63())), x, others)
	healthy, loadReads, total, ok := c19Healthy(c, path, ops)
	if !ok {
		return
	}
	desc := fmt.Sprintf("file-backed segment docs=%d fields=%q, script of %d calls using %d ReadAt calls after %d for Load", len(x.Docs), x.Fields, len(ops), total-loadReads, loadReads)
	stride := int64(1)
	maxP := int64(tierN(c.Tier, 300, 3000))
	if c.Idx%2 == 1 {
		maxP = int64(tierN(c.Tier, 2500, 20000)) // tiny segments: every read index
	}
	if c.Idx%50 == 0 {
		maxP = 200 // the jumbo segment's script needs ~50 000 reads per run: sample it sparsely
	}
	if total-loadReads > maxP {
		stride = (total-loadReads)/maxP + 1
	}
	points := int64(0)
	for n := loadReads; n < total; n += stride {
		for _, width := range []int64{-1, 1, 3} {
			reached, ok := c19Faulted(c, path, ops, healthy, n, width, desc)
			c.Eval(1)
			if reached {
				points++
				c.Inc("fault_points_inprocess", 1)
			}
			if !ok {
				c.Inc("fault_points_violating", 1)
				if c.Violated() && points > 40 { // enough witnesses from this script
					return
				}
			}
		}
	}
	c.Max("max_reads_per_script", total-loadReads)
	c.Inc("scripts_inprocess", 1)
	if stride == 1 {
		c.Inc("scripts_enumerated_exhaustively", 1)
	}
	c.Nontrivial(hashAny("inproc", c.Idx, desc), points)
	if c.WantSample() {
		var names []string
		for _, op := range ops[:len(ops)/2] {
			names = append(names, op.name)
		}
		c.Sample(map[string]interface{}{"segment": desc, "script_first_half (second half repeats it)": names, "fault_points": points, "modes": "permanent from read N; single failed read N; three failed reads from N; then fault lifted and the script re-run"})
	}
}

// close-the-file / truncate faults through the real *os.File
func c19FileRun(c *runner.Ctx) {
	path, x, others, closer, err := c19Prepare(c, true)
	defer closer()
	if err != nil {
		c.Note(fmt.Sprintf("case %d: preparing the segment failed: %s", c.Idx, firstLine(err.Error())))
		return
	}
	defer os.Remove(path)
	ops := c19Script(rand.New(rand.NewSource(c.R.Int63())), x, others)
	healthy, _, _, ok := c19Healthy(c, path, ops)
	if !ok {
		return
	}
	full, _ := os.ReadFile(path)
	half := len(ops) / 2
	for k := 0; k <= half; k++ {
		for _, kind := range []string{"close", "truncate"} {
			s, f, err := openReal(path)
			if err != nil {
				c.Note("load failed: " + err.Error())
				return
			}
			desc := fmt.Sprintf("file-backed segment docs=%d fields=%q; %s the file after %d healthy calls", len(x.Docs), x.Fields, kind, k)
			bad := false
			c19NewState()
			for i, op := range ops {
				if i == k {
					if kind == "close" {
						f.Close()
					} else {
						os.Truncate(path, int64(c.R.Intn(len(full))))
					}
				}
				o := c19RunOp(s, op)
				switch {
				case o.panicS != "":
					c.Violate("panic:file-"+kind+":"+runner.TopIceFrame(o.panicS), fmt.Sprintf("%s panicked after the file was %sd: %s", op.name, kind, firstLine(o.panicS)), o.panicS+"\n"+desc)
					bad = true
				case !o.mutexOK:
					c.Violate("mutex-leaked:file-"+kind, fmt.Sprintf("after %s returned the segment mutex is still held (file %sd): the next call needing it blocks forever", op.name, kind), desc)
					bad = true
				case !o.err && o.res != healthy[i].res && !o.empty && kind == "close":
					c.Violate("wrong-result:file-"+kind, fmt.Sprintf("%s returned a different non-empty result without error", op.name), desc)
					bad = true
				}
				if bad {
					break
				}
			}
			if kind == "truncate" {
				os.WriteFile(path, full, 0o644)
			}
			f.Close()
			c.Eval(1)
			if bad {
				return
			}
			c.Inc("fault_points_"+kind, 1)
		}
	}
	c.Nontrivial(hashAny("file", c.Idx, len(ops)), int64(2*(half+1)))
}

func openReal(path string) (segment.Segment, *os.File, error) {
	f, err := os.Open(path)
	if err != nil {
		return nil, nil, err
	}
	data, err := segment.NewDataFile(f)
	if err != nil {
		f.Close()
		return nil, nil, err
	}
	var s segment.Segment
	panicked, msg, _ := runner.Try(func() { s, err = ice.Load(data) })
	if panicked {
		err = fmt.Errorf("panic in Load: %s", msg)
	}
	if err != nil {
		f.Close()
		return nil, nil, err
	}
	return s, f, nil
}

// ---------- strace: real pread64 failures (EIO) injected by the kernel tracer

func init() {
	// worker: icecheck -worker c19 <file> <model-seed-args…>; prints one line per call
	workers["c19"] = func(args []string) int {
		runtime.LockOSThread() // every ReadAt of the script is issued from this thread: strace's when=N is exact
		path := args[0]
		seed, _ := strconv.ParseInt(args[1], 10, 64)
		caseIdx, _ := strconv.Atoi(args[2])
		tier := args[3]
		// regenerate the same segment model and script as the parent
		c := runner.NewDetachedCtx("C19", "strace", tier, seed, caseIdx, filepath.Dir(path))
		_, x, others, closer, err := c19Prepare(c, false)
		defer closer()
		if err != nil {
			fmt.Println("PREPARE-ERROR", err)
			return 3
		}
		ops := c19Script(rand.New(rand.NewSource(c.R.Int63())), x, others)
		s, f, err := openReal(path)
		if err != nil {
			fmt.Println("LOAD-ERROR", err)
			return 3
		}
		defer f.Close()
		w := bufio.NewWriter(os.Stdout)
		fmt.Fprintln(w, "LOADED")
		w.Flush()
		c19NewState()
		for i, op := range ops {
			o := c19RunOp(s, op)
			st := "ok"
			switch {
			case o.panicS != "":
				st = "panic"
			case o.err:
				st = "err"
			}
			fmt.Fprintf(w, "OP %d %s %s empty=%v mutex=%v %s\n", i, st, hashStr(o.res), o.empty, o.mutexOK, strings.ReplaceAll(op.name, " ", "_"))
			if o.panicS != "" {
				fmt.Fprintf(w, "PANIC %s\n", strings.ReplaceAll(clipS(o.panicS, 3000), "\n", "\\n"))
			}
			w.Flush()
			if !o.mutexOK {
				break // the next Dictionary call would block forever
			}
		}
		fmt.Fprintln(w, "DONE")
		w.Flush()
		return 0
	}
}

type c19Line struct {
	st, hash    string
	empty, mtx  bool
	name, panic string
}

func c19ParseWorker(out string) (lines []c19Line, loaded, done bool) {
	for _, l := range strings.Split(out, "\n") {
		switch {
		case l == "LOADED":
			loaded = true
		case l == "DONE":
			done = true
		case strings.HasPrefix(l, "OP "):
			f := strings.Fields(l)
			if len(f) >= 7 {
				lines = append(lines, c19Line{st: f[2], hash: f[3], empty: f[4] == "empty=true", mtx: f[5] == "mutex=true", name: f[6]})
			}
		case strings.HasPrefix(l, "PANIC ") && len(lines) > 0:
			lines[len(lines)-1].panic = strings.ReplaceAll(l[6:], "\\n", "\n")
		}
	}
	return
}

func c19StraceRun(c *runner.Ctx) {
	if _, err := exec.LookPath("strace"); err != nil {
		c.Note("strace not available")
		return
	}
	path, x, _, closer, err := c19Prepare(c, true)
	closer()
	if err != nil {
		c.Note(fmt.Sprintf("case %d: preparing the segment failed: %s", c.Idx, firstLine(err.Error())))
		return
	}
	defer os.Remove(path)
	args := []string{"-worker", "c19", path, strconv.FormatInt(c.Seed, 10), strconv.Itoa(c.Idx), c.Tier}
	// healthy run under strace, counting pread64 calls before and after the LOADED marker
	traceFile := path + ".trace"
	defer os.Remove(traceFile)
	cmd := exec.Command("strace", append([]string{"-f", "-qq", "-e", "trace=pread64,write", "-o", traceFile, os.Args[0]}, args...)...)
	out, err := cmd.Output()
	healthy, loaded, done := c19ParseWorker(string(out))
	if err != nil || !loaded || !done {
		c.Note(fmt.Sprintf("case %d: healthy strace run failed: %v %s", c.Idx, err, clipS(string(out), 300)))
		return
	}
	tr, _ := os.ReadFile(traceFile)
	loadReads, total := 0, 0
	seenLoaded := false
	for _, l := range strings.Split(string(tr), "\n") {
		if strings.Contains(l, "pread64(") {
			total++
			if !seenLoaded {
				loadReads++
			}
		}
		if strings.Contains(l, "write(1, \"LOADED") {
			seenLoaded = true
		}
	}
	if total == loadReads {
		c.Note("strace saw no pread64 after load")
		return
	}
	desc := fmt.Sprintf("file-backed segment docs=%d fields=%q; worker process under strace, %d pread64 for Load and %d for the script of %d calls", len(x.Docs), x.Fields, loadReads, total-loadReads, len(healthy))
	maxPoints := tierN(c.Tier, 24, 80)
	step := 1
	if total-loadReads > maxPoints {
		step = (total - loadReads) / maxPoints
	}
	points := int64(0)
	for n := loadReads + 1; n <= total; n += step {
		for _, when := range []string{fmt.Sprintf("%d+", n), fmt.Sprintf("%d", n)} {
			ctxTimeout := 180 * time.Second
			cmd := exec.Command("strace", append([]string{"-f", "-qq", "-e", "trace=pread64", "-e", "inject=pread64:error=EIO:when=" + when, "-o", "/dev/null", os.Args[0]}, args...)...)
			var ob, eb bytes.Buffer
			cmd.Stdout, cmd.Stderr = &ob, &eb
			if err := cmd.Start(); err != nil {
				c.Note("cannot start strace: " + err.Error())
				return
			}
			fin := make(chan error, 1)
			go func() { fin <- cmd.Wait() }()
			timedOut := false
			select {
			case <-fin:
			case <-time.After(ctxTimeout):
				timedOut = true
				cmd.Process.Kill()
				<-fin
			}
			lines, loaded, done := c19ParseWorker(ob.String())
			c.Eval(1)
			where := fmt.Sprintf("%s; inject=pread64:error=EIO:when=%s", desc, when)
			if !loaded {
				c.Note("worker did not load under injection when=" + when + ": " + clipS(ob.String()+eb.String(), 200))
				continue
			}
			points++
			bad := false
			for i, l := range lines {
				if i >= len(healthy) {
					break
				}
				switch {
				case l.st == "panic":
					c.Violate("panic:strace:"+runner.TopIceFrame(l.panic), fmt.Sprintf("%s panicked under a failing pread64: %s", l.name, firstLine(l.panic)), l.panic+"\n"+where)
					bad = true
				case !l.mtx:
					c.Violate("mutex-leaked:strace", fmt.Sprintf("after %s returned the segment mutex is still held: the next call needing it blocks forever", l.name), where)
					bad = true
				case l.st == "ok" && l.hash != healthy[i].hash && !l.empty:
					c.Violate("wrong-result:strace:"+strings.SplitN(l.name, "(", 2)[0], fmt.Sprintf("%s returned a non-empty result without error that differs from the healthy one", l.name), where)
					bad = true
				}
				if bad {
					break
				}
			}
			if !bad && (!done || timedOut) {
				if timedOut {
					c.Note("strace worker timed out without a mutex leak being observed (inconclusive): " + where)
				} else {
					c.Violate("worker-died:strace", "the worker process ended without finishing the script: "+clipS(eb.String(), 300), ob.String()+"\n"+where)
				}
			}
			if !bad {
				c.Inc("fault_points_strace", 1)
			} else if points > 10 {
				return
			}
		}
	}
	c.Inc("scripts_strace", 1)
	c.Nontrivial(hashAny("strace", c.Idx, desc), points)
	if c.WantSample() {
		c.Sample(map[string]interface{}{"injector": "strace -e inject=pread64:error=EIO:when=N+ / when=N on a worker whose script goroutine is locked to its OS thread", "segment": desc, "fault_points": points})
	}
}

func init() {
	register(&runner.Property{
		ID:    "C19",
		Level: "fault_enumeration",
		Rule: "a script = shuffled list of read calls with fresh objects on one file-backed segment (per field Dictionary+Contains and dictionary iteration with counts, postings walks with flags and Advance, VisitStoredFields of first/last/middle documents, a fresh doc-value reader over several documents/chunks, DocsMatchingTerms, CollectionStats, WriteTo, the segment as a merge input), executed twice in a row (the second half are the 'later calls'). " +
			"phase inprocess: a fault-injecting io.ReaderAt is interposed under bluge_segment_api.Data; for EVERY ReadAt index N after Load (every index for the tiny-segment half of the cases up to 2500 reads in quick / 20000 in thorough; the other half is stride-sampled to 300 / 3000 points) the script runs on a freshly loaded segment with (a) all reads >= N failing, (b) read N failing once, (c) reads N..N+2 failing, and afterwards, fault lifted, the script runs again. phase file: the real *os.File is closed, or the file truncated to a random length, after k healthy calls, for every k. phase strace: a worker process with its script goroutine locked to the OS thread runs under strace -e inject=pread64:error=EIO:when=N+ and when=N for N over the script's pread64 calls. " +
			"oracle per call: no panic; outcome is an error, an empty result, or exactly the healthy result; VerifSegmentMutexFree (TryLock) is true after every call (a leaked lock = the next call blocks forever; decided logically, a 60 s watchdog + goroutine dump only backs it up); after the fault is lifted fresh lookups give the healthy result or an error. evaluations = faulted script runs; non-trivial = fault points that were actually reached, per distinct script",
		Assumptions: append([]string{"storage faults are failing reads (EIO, closed descriptor, truncated file); short reads without error and silent corruption are out of scope", "objects that returned an error are discarded; every call of the script uses fresh dictionaries, iterators and readers"}, InputContract...),
		Phases: []runner.Phase{
			{Name: "inprocess", Cases: cases(48, 600), Run: c19InprocRun},
			{Name: "file", Cases: cases(32, 300), Run: c19FileRun},
			{Name: "strace", Cases: cases(16, 64), Run: c19StraceRun},
		},
		Floors: func(string) map[string]int64 {
			return map[string]int64{"fault_points_inprocess": 5000, "fault_points_close": 300, "fault_points_truncate": 300, "fault_points_strace": 100, "scripts_enumerated_exhaustively": 6}
		},
	})
}
