package props

import (
	"fmt"

	"github.com/RoaringBitmap/roaring"

	"verif/harness/gen"
	"verif/harness/model"
	"verif/harness/observe"
	"verif/harness/runner"
)

// C04 — every segment ice writes can be loaded back and reads identically.
// Oracle: WriteTo/Load succeed, n == bytes received, and the observation
// (all read APIs incl. statistics) of the memory-loaded and of the file-loaded
// segment equals the observation of the original.

func c04World(c *runner.Ctx) (*gen.World, string, error) {
	r := c.R
	forced := c.Idx % 100
	switch {
	case forced == 0: // empty batch and things merged from it
		w := &gen.World{}
		e, err := gen.BuildSeg(nil, 1025)
		if err != nil {
			return nil, "empty-batch", err
		}
		w.Segs = append(w.Segs, e)
		e2, err := gen.BuildSeg(nil, 3)
		if err != nil {
			return w, "empty-batch", err
		}
		w.Segs = append(w.Segs, e2)
		m, _, err := gen.MergeSegs([]*gen.Seg{e, e2}, []*roaring.Bitmap{nil, roaring.New()}, 1025)
		if err != nil {
			return w, "empty-batch", err
		}
		w.Segs = append(w.Segs, m)
		return w, "empty-batch", nil
	case forced == 1 || forced == 2: // zero-survivor merges and trees over them
		w := &gen.World{Schema: gen.GenSchema(r)}
		a, err := gen.BuildSeg(gen.GenBatch(r, w.Schema, 1+r.Intn(9), "a", gen.DocOpts{Repeat: true}), gen.Mode(r, 10))
		if err != nil {
			return nil, "zero-survivors", err
		}
		b, err := gen.BuildSeg(gen.GenBatch(r, w.Schema.Sub(r), 1+r.Intn(9), "b", gen.DocOpts{}), gen.Mode(r, 10))
		if err != nil {
			return nil, "zero-survivors", err
		}
		w.Segs = append(w.Segs, a, b)
		z, _, err := gen.MergeSegs([]*gen.Seg{a, b}, []*roaring.Bitmap{gen.Drops(r, len(a.X.Docs), 4), gen.Drops(r, len(b.X.Docs), 4)}, gen.Mode(r, 10))
		if err != nil {
			return w, "zero-survivors", err
		}
		w.Segs = append(w.Segs, z)
		zz, _, err := gen.MergeSegs([]*gen.Seg{z, a, z}, []*roaring.Bitmap{nil, gen.Drops(r, len(a.X.Docs), pick(r, 0, 2, 4)), roaring.New()}, gen.Mode(r, 10))
		if err != nil {
			return w, "zero-survivors", err
		}
		w.Segs = append(w.Segs, zz)
		z3, _, err := gen.MergeSegs([]*gen.Seg{zz, z}, []*roaring.Bitmap{gen.Drops(r, len(zz.X.Docs), 4), nil}, gen.Mode(r, 10))
		if err != nil {
			return w, "zero-survivors", err
		}
		w.Segs = append(w.Segs, z3)
		return w, "zero-survivors", nil
	case forced == 4: // more than 5600 documents: the stored-block offset table of the persisted file exceeds 128 bytes
		w, err := gen.GenWorld(r, c.TmpDir, fmt.Sprintf("w%d", c.Idx), gen.WorldOpts{Jumbo: true, JumboN: 5600 + r.Intn(2400)})
		return w, "jumbo-6k", err
	case forced == 3:
		w, err := gen.GenWorld(r, c.TmpDir, fmt.Sprintf("w%d", c.Idx), gen.WorldOpts{Jumbo: true})
		return w, "jumbo", err
	}
	w, err := gen.GenWorld(r, c.TmpDir, fmt.Sprintf("w%d", c.Idx), gen.WorldOpts{MaxDocs: 140})
	return w, "random", err
}

func c04Run(c *runner.Ctx) {
	w, shape, err := c04World(c)
	c.Inc("shape."+shape, 1)
	if w != nil {
		defer w.Close()
	}
	if err != nil {
		c.Eval(1)
		c.Violate("world-error:"+errClass(err), "building, merging, persisting or loading a segment of the workload failed: "+firstLine(err.Error()), err.Error())
		return
	}
	for si, sg := range w.Segs {
		c.Eval(1)
		desc := func() string {
			return fmt.Sprintf("shape=%s segment %d of the world: kind=%s mode=%d docs=%d fields=%q", shape, si, sg.Kind, sg.Mode, len(sg.X.Docs), sg.X.Fields)
		}
		orig, err := observe.Observe(sg.S, model.AllStats)
		if err != nil {
			c.Violate("observe-original:"+errClass(err), "reading the original segment failed: "+firstLine(err.Error()), err.Error()+"\n"+desc())
			continue
		}
		b, n, err := gen.Persist(sg.S)
		if err != nil {
			c.Violate("writeto-error:"+errClass(err), "WriteTo failed: "+firstLine(err.Error()), err.Error()+"\n"+desc())
			continue
		}
		if int(n) != len(b) {
			c.Violate("writeto-count", fmt.Sprintf("WriteTo returned %d but wrote %d bytes", n, len(b)), desc())
		}
		check := func(kind string, img []byte, file bool) []byte {
			t := &gen.Seg{S: nil, X: sg.X, Mode: sg.Mode, Bytes: img}
			lt, err := t.Reload(c.TmpDir, file)
			if err != nil {
				c.Violate("load-error:"+kind+":"+errClass(err), kind+": Load failed: "+firstLine(err.Error()), err.Error()+"\n"+desc())
				return nil
			}
			defer lt.Close()
			got, err := observe.Observe(lt.S, model.AllStats)
			if err != nil {
				c.Violate("observe-loaded:"+kind+":"+errClass(err), kind+": reading the loaded segment failed: "+firstLine(err.Error()), err.Error()+"\n"+desc())
				return nil
			}
			if got != orig {
				c.Violate("mismatch:"+kind+":"+classifyDiff(orig, got), kind+": loaded segment differs from the original at "+model.FirstDiff(orig, got), desc())
				return nil
			}
			c.Inc("roundtrips."+kind, 1)
			// persist the loaded form again (C04: "persisted … and loaded": from a loaded form too)
			b2, n2, err := gen.Persist(lt.S)
			if err != nil {
				c.Violate("rewrite-error:"+kind+":"+errClass(err), kind+": WriteTo of a loaded segment failed: "+firstLine(err.Error()), err.Error()+"\n"+desc())
				return nil
			}
			if int(n2) != len(b2) {
				c.Violate("rewrite-count:"+kind, fmt.Sprintf("%s: WriteTo of a loaded segment returned %d but wrote %d bytes", kind, n2, len(b2)), desc())
			}
			return b2
		}
		b2 := check("memory", b, false)
		b3 := check("file", b, true)
		if b2 != nil {
			check("memory-of-memory", b2, false)
		}
		if b3 != nil {
			check("memory-of-file", b3, false)
		}
		c.Inc("segments."+sg.Kind, 1)
		if len(sg.X.Docs) == 0 {
			if sg.Kind == "merged" {
				c.Inc("degenerate.zero_doc_merged", 1)
			} else {
				c.Inc("degenerate.empty_batch", 1)
			}
			c.Nontrivial(hashAny("degenerate", sg.Kind, sg.Mode, fmt.Sprint(sg.X.Fields), c.Idx, si), 1)
		} else if len(sg.X.Fields) >= 2 {
			c.Nontrivial(hashAny(orig, sg.Mode), 1)
		}
		if c.WantSample() && len(sg.X.Docs) > 0 && len(sg.X.Docs) < 6 {
			c.Sample(map[string]interface{}{"kind": sg.Kind, "chunk_mode": sg.Mode, "docs": len(sg.X.Docs), "fields": sg.X.Fields, "file_bytes": len(b), "observation_head": clipS(orig, 600)})
		}
	}
}

func init() {
	register(&runner.Property{
		ID:    "C04",
		Level: "exploration",
		Rule: "cases = worlds of segments (built in every chunk mode, memory-/file-loaded, merged with all deletion patterns, merges of merges; forced: empty batch, zero-survivor merges and merge trees over them, a jumbo world); each segment is one evaluation: WriteTo -> Load from an exact-length memory image and file-backed -> observation (all read APIs + statistics) must equal the original's, then the loaded forms are persisted and loaded again; " +
			"non-trivial = segment with >=1 document and >=2 fields (distinct by observation text and chunk mode) or a degenerate shape (empty batch / zero-document merge, counted separately)",
		Assumptions: InputContract,
		Phases:      []runner.Phase{{Name: "roundtrip", Cases: cases(800, 20000), Run: c04Run}},
		Floors: func(string) map[string]int64 {
			return map[string]int64{"degenerate.empty_batch": 1, "degenerate.zero_doc_merged": 2, "roundtrips.file": 300, "roundtrips.memory": 300, "segments.merged": 100}
		},
	})
}
