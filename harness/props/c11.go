package props

import (
	"bytes"
	"encoding/binary"
	"fmt"
	"hash/crc32"

	"github.com/RoaringBitmap/roaring"
	segment "github.com/blugelabs/bluge_segment_api"
	ice "github.com/blugelabs/ice/v2"

	"verif/harness/gen"
	"verif/harness/runner"
)

// C11 — written files end in a footer whose CRC-32 covers every preceding byte.
// The footer is parsed by this independent 44-byte parser written from the
// README: | D# u64 | SF u64 | F u64 | FDV u64 | CM u32 | V u32 | CC u32 |, big endian.

type footer struct {
	NumDocs, Stored, Fields, DV uint64
	ChunkMode, Version, CRC     uint32
}

const footerLen = 44

func parseFooter(b []byte) (footer, bool) {
	if len(b) < footerLen {
		return footer{}, false
	}
	f := b[len(b)-footerLen:]
	return footer{
		NumDocs: binary.BigEndian.Uint64(f[0:]), Stored: binary.BigEndian.Uint64(f[8:]), Fields: binary.BigEndian.Uint64(f[16:]), DV: binary.BigEndian.Uint64(f[24:]),
		ChunkMode: binary.BigEndian.Uint32(f[32:]), Version: binary.BigEndian.Uint32(f[36:]), CRC: binary.BigEndian.Uint32(f[40:]),
	}, true
}

// checkFile applies the C11 oracle to one produced file.
func c11CheckFile(c *runner.Ctx, producer string, b []byte, n int64, desc func() string) bool {
	c.Eval(1)
	ok := true
	if int(n) != len(b) {
		c.Violate("count:"+producer, fmt.Sprintf("%s returned n=%d but %d bytes were written", producer, n, len(b)), desc())
		ok = false
	}
	ft, good := parseFooter(b)
	if !good {
		c.Violate("short:"+producer, fmt.Sprintf("%s wrote %d bytes, fewer than a footer", producer, len(b)), desc())
		return false
	}
	if want := crc32.ChecksumIEEE(b[:len(b)-4]); ft.CRC != want {
		c.Violate("crc:"+producer, fmt.Sprintf("%s: footer CRC %08x but CRC-32/IEEE of the preceding %d bytes is %08x", producer, ft.CRC, len(b)-4, want), desc())
		ok = false
	}
	// footer fields vs what the loaded segment reports
	ls, err := gen.LoadMem(b)
	if err != nil {
		c.Violate("load:"+producer+":"+errClass(err), producer+": the written file does not load: "+firstLine(err.Error()), err.Error()+"\n"+desc())
		return false
	}
	is, isIce := ls.(*ice.Segment)
	if !isIce {
		c.Note("loaded segment is not *ice.Segment")
		return ok
	}
	if ft.NumDocs != ls.Count() || ft.NumDocs != is.NumDocs() {
		c.Violate("footer-numdocs:"+producer, fmt.Sprintf("%s: footer document count %d, loaded Count()=%d NumDocs()=%d", producer, ft.NumDocs, ls.Count(), is.NumDocs()), desc())
		ok = false
	}
	if ft.Version != ls.Version() || ft.Version != ice.Version {
		c.Violate("footer-version:"+producer, fmt.Sprintf("%s: footer version %d, loaded Version()=%d", producer, ft.Version, ls.Version()), desc())
		ok = false
	}
	if ft.ChunkMode != is.ChunkMode() {
		c.Violate("footer-chunkmode:"+producer, fmt.Sprintf("%s: footer chunk mode %d, loaded ChunkMode()=%d", producer, ft.ChunkMode, is.ChunkMode()), desc())
		ok = false
	}
	if is.CRC() != ft.CRC {
		c.Violate("footer-crc-accessor:"+producer, fmt.Sprintf("%s: loaded CRC()=%08x, footer %08x", producer, is.CRC(), ft.CRC), desc())
		ok = false
	}
	if ft.Stored != is.StoredIndexOffset() || ft.Fields != is.FieldsIndexOffset() || ft.DV != is.DocValueOffset() {
		c.Violate("footer-offsets:"+producer, fmt.Sprintf("%s: footer offsets (%d,%d,%d) differ from the loaded segment's (%d,%d,%d)", producer, ft.Stored, ft.Fields, ft.DV, is.StoredIndexOffset(), is.FieldsIndexOffset(), is.DocValueOffset()), desc())
		ok = false
	}
	return ok
}

func c11Run(c *runner.Ctx) {
	w, shape, err := c04World(c)
	c.Inc("shape."+shape, 1)
	if w != nil {
		defer w.Close()
	}
	if err != nil {
		c.Note("world construction failed (C04's business): " + firstLine(err.Error()))
		return
	}
	if c.Idx%2 == 0 { // hostile history: merges aborted inside the footer and elsewhere precede the files checked below
		abortedMergeHistory(c)
	}
	for si, sg := range w.Segs {
		desc := func() string {
			return fmt.Sprintf("shape=%s segment %d: kind=%s mode=%d docs=%d fields=%q", shape, si, sg.Kind, sg.Mode, len(sg.X.Docs), sg.X.Fields)
		}
		var b []byte
		if sg.Kind == "merged" {
			// sg.Bytes is what Merger.WriteTo / the merge writer produced
			if !c11CheckFile(c, "Merger.WriteTo", sg.Bytes, int64(len(sg.Bytes)), desc) {
				continue
			}
			c.Inc("files.merger", 1)
			mis, _ := sg.S.(*ice.Segment)
			if ft, _ := parseFooter(sg.Bytes); mis != nil && ft.ChunkMode != sg.Mode {
				c.Violate("footer-chunkmode:merge-mode", fmt.Sprintf("merge ran with chunk mode %d, footer says %d", sg.Mode, ft.ChunkMode), desc())
			}
		}
		// a merge of this single segment with nothing deleted (what a maintainer might turn into a byte copy)
		if len(sg.X.Docs) > 0 && c.R.Intn(2) == 0 {
			var mb bytes.Buffer
			mn, merr := ice.Merge([]segment.Segment{sg.S}, []*roaring.Bitmap{pickDrop(c.R, nil, roaring.New())}, 0).WriteTo(&mb, nil)
			if merr == nil && c11CheckFile(c, "Merger.WriteTo(single "+sg.Kind+" input)", mb.Bytes(), mn, desc) {
				c.Inc("files.merger_single_input."+sg.Kind, 1)
			}
			var vb bytes.Buffer
			if _, vn, verr := ice.VerifMerge([]segment.Segment{sg.S}, []*roaring.Bitmap{nil}, &vb, sg.Mode, nil); verr == nil {
				if c11CheckFile(c, "merge writer(single "+sg.Kind+" input, same chunk mode)", vb.Bytes(), int64(vn), desc) {
					c.Inc("files.merger_single_input_same_mode."+sg.Kind, 1)
				}
			}
		}
		pb, n, err := gen.Persist(sg.S)
		if err != nil {
			c.Violate("writeto-error:"+errClass(err), "Segment.WriteTo failed: "+firstLine(err.Error()), err.Error()+"\n"+desc())
			continue
		}
		if !c11CheckFile(c, "Segment.WriteTo("+sg.Kind+")", pb, n, desc) {
			continue
		}
		c.Inc("files.segment."+sg.Kind, 1)
		b = pb
		// history: a WriteTo that failed part-way (writer error at a random offset) followed by a retry on a healthy writer
		if len(pb) > 0 {
			fw := &failWriter{at: c.R.Intn(len(pb))}
			if _, err := sg.S.WriteTo(fw, nil); err != nil {
				rb, rn, rerr := gen.Persist(sg.S)
				if rerr != nil {
					c.Violate("retry-error:"+sg.Kind, "WriteTo after a failed WriteTo failed on a healthy writer: "+firstLine(rerr.Error()), desc())
				} else if c11CheckFile(c, "Segment.WriteTo("+sg.Kind+") retried after a failed write", rb, rn, desc) {
					if !bytes.Equal(rb, pb) {
						c.Violate("retry-differs:"+sg.Kind, "WriteTo after a failed WriteTo produced a different file than before ("+diffAt(pb, rb)+")", desc())
					} else {
						c.Inc("retries_after_failed_write_identical", 1)
					}
				}
			}
		}
		if sg.Bytes != nil && !bytes.Equal(sg.Bytes, pb) {
			c.Violate("repersist:"+sg.Kind, fmt.Sprintf("persisting a %s segment again does not reproduce the file it was loaded from (%s)", sg.Kind, diffAt(sg.Bytes, pb)), desc())
			continue
		}
		// the same on a segment object whose VERY FIRST WriteTo is the failing one (freshly loaded copy, or a fresh build)
		if len(pb) > 0 {
			var fresh *gen.Seg
			var ferr error
			if sg.Kind == "built" && sg.Docs != nil && si%2 == 0 {
				fresh, ferr = gen.BuildSeg(sg.Docs, sg.Mode)
			} else {
				t := &gen.Seg{X: sg.X, Mode: sg.Mode, Bytes: pb}
				fresh, ferr = t.Reload(c.TmpDir, si%3 == 0)
			}
			if ferr == nil {
				fw := &failWriter{at: c.R.Intn(len(pb))}
				if _, err := fresh.S.WriteTo(fw, nil); err != nil {
					rb, rn, rerr := gen.Persist(fresh.S)
					switch {
					case rerr != nil:
						c.Violate("first-write-failed-retry-error:"+fresh.Kind, "WriteTo after a failed first WriteTo failed on a healthy writer: "+firstLine(rerr.Error()), desc())
					case !c11CheckFile(c, "Segment.WriteTo("+fresh.Kind+") after its first WriteTo failed", rb, rn, desc):
					case !bytes.Equal(rb, pb):
						c.Violate("first-write-failed-retry-differs:"+fresh.Kind, "WriteTo after a failed first WriteTo produced a different file ("+diffAt(pb, rb)+")", desc())
					default:
						c.Inc("retries_after_failed_first_write_identical."+fresh.Kind, 1)
					}
				}
				fresh.Close()
			}
		}
		// chain load -> write -> load -> write, memory- and file-backed alternating
		cur := b
		for step := 0; step < 3; step++ {
			file := (step+si)%2 == 0
			t := &gen.Seg{X: sg.X, Mode: sg.Mode, Bytes: cur}
			lt, err := t.Reload(c.TmpDir, file)
			if err != nil {
				c.Violate("chain-load:"+errClass(err), "loading a written file failed: "+firstLine(err.Error()), err.Error()+"\n"+desc())
				break
			}
			nb, nn, err := gen.Persist(lt.S)
			lt.Close()
			kind := map[bool]string{true: "file", false: "memory"}[file]
			if err != nil {
				c.Violate("chain-writeto:"+kind+":"+errClass(err), "WriteTo of a loaded segment failed: "+firstLine(err.Error()), err.Error()+"\n"+desc())
				break
			}
			c.Eval(1)
			if int(nn) != len(nb) {
				c.Violate("count:repersist-"+kind, fmt.Sprintf("re-persisting a %s-loaded segment returned n=%d but wrote %d bytes", kind, nn, len(nb)), desc())
			}
			if !bytes.Equal(nb, cur) {
				c.Violate("repersist:loaded-"+kind, fmt.Sprintf("persisting a %s-loaded segment again does not reproduce the file byte for byte (step %d: %s)", kind, step, diffAt(cur, nb)), desc())
				break
			}
			c.Inc("repersist_identical."+kind, 1)
			cur = nb
		}
		if len(sg.X.Docs) > 0 {
			c.Nontrivial(hashAny(b), 1)
		}
		if c.WantSample() && len(sg.X.Docs) > 0 {
			ft, _ := parseFooter(b)
			c.Sample(map[string]interface{}{"kind": sg.Kind, "file_bytes": len(b), "footer": ft, "crc_ok": true})
		}
	}
}

func diffAt(a, b []byte) string {
	if len(a) != len(b) {
		return fmt.Sprintf("lengths %d vs %d", len(a), len(b))
	}
	for i := range a {
		if a[i] != b[i] {
			return fmt.Sprintf("first difference at byte %d of %d (%02x vs %02x)", i, len(a), a[i], b[i])
		}
	}
	return "equal"
}

var _ = segment.ErrClosed

func init() {
	register(&runner.Property{
		ID:    "C11",
		Level: "exploration",
		Rule: "cases = the C04 worlds; per segment: the bytes of Merger.WriteTo (merged segments) and of Segment.WriteTo (built, merged-and-loaded, memory-/file-loaded) are checked with an independent footer parser: last 4 bytes == CRC-32/IEEE of all preceding bytes, footer doc count/version/chunk mode/offsets == what the loaded segment reports, n == bytes received; then a load->write chain of length 3 (memory/file alternating) must reproduce the file byte for byte; " +
			"evaluations = files checked; non-trivial = file of a segment with >=1 document, distinct by file content hash",
		Assumptions: InputContract,
		Phases:      []runner.Phase{{Name: "footer", Cases: cases(1500, 40000), Run: c11Run}},
		Floors: func(string) map[string]int64 {
			return map[string]int64{"files.merger": 100, "repersist_identical.file": 300, "repersist_identical.memory": 300}
		},
	})
}
