package props

import (
	"bytes"
	"fmt"
	"os"
	"path/filepath"
	"sort"
	"strings"

	"github.com/RoaringBitmap/roaring"
	segment "github.com/blugelabs/bluge_segment_api"
	ice "github.com/blugelabs/ice/v2"

	"verif/harness/gen"
	"verif/harness/golden"
	"verif/harness/model"
	"verif/harness/observe"
	refice "verif/harness/refice"
	"verif/harness/runner"
)

// C10 — on-disk format version 2 stays readable across code versions.
// Two implementations: cur = /repo's working tree, ref = the frozen copy in
// harness/refice. Oracle: both readers must make the same observation of the
// SAME bytes (never byte equality of two writers).

type iceImpl struct {
	name  string
	build func(docs []segment.Document, mode uint32) (segment.Segment, error)
	merge func(segs []segment.Segment, drops []*roaring.Bitmap, mode uint32) ([]byte, error)
	load  func(b []byte) (segment.Segment, error)
}

var implCur = iceImpl{
	name: "current",
	build: func(docs []segment.Document, mode uint32) (segment.Segment, error) {
		s, _, err := ice.VerifNew(docs, model.NormCalc, mode)
		return s, err
	},
	merge: func(segs []segment.Segment, drops []*roaring.Bitmap, mode uint32) ([]byte, error) {
		var buf bytes.Buffer
		_, _, err := ice.VerifMerge(segs, drops, &buf, mode, nil)
		return buf.Bytes(), err
	},
	load: func(b []byte) (segment.Segment, error) {
		s, err := ice.Load(segment.NewDataBytes(b))
		if err != nil {
			return nil, err
		}
		return s, nil
	},
}

var implRef = iceImpl{
	name: "reference",
	build: func(docs []segment.Document, mode uint32) (segment.Segment, error) {
		s, _, err := refice.VerifNew(docs, model.NormCalc, mode)
		return s, err
	},
	merge: func(segs []segment.Segment, drops []*roaring.Bitmap, mode uint32) ([]byte, error) {
		var buf bytes.Buffer
		_, _, err := refice.VerifMerge(segs, drops, &buf, mode, nil)
		return buf.Bytes(), err
	},
	load: func(b []byte) (segment.Segment, error) {
		s, err := refice.Load(segment.NewDataBytes(b))
		if err != nil {
			return nil, err
		}
		return s, nil
	},
}

func exact(b []byte) []byte {
	cp := make([]byte, len(b))
	copy(cp, b)
	return cp[:len(cp):len(cp)]
}

// readWith loads bytes with an implementation and observes everything.
func readWith(im iceImpl, b []byte) (obs string, err error) {
	var s segment.Segment
	panicked, msg, stack := runner.Try(func() { s, err = im.load(exact(b)) })
	if panicked {
		return "", fmt.Errorf("panic in Load: %s\n%s", msg, stack)
	}
	if err != nil {
		return "", fmt.Errorf("Load: %w", err)
	}
	return observe.Observe(s, model.AllStats)
}

// c10Produce writes one file with writer w: either a built batch or a merge of built batches.
func c10Produce(c *runner.Ctx, w iceImpl) (b []byte, desc string, kind string, err error) {
	r := c.R
	persist := func(s segment.Segment) ([]byte, error) {
		var buf bytes.Buffer
		_, err := s.WriteTo(&buf, nil)
		return buf.Bytes(), err
	}
	jumbo := c.Idx%150 < 2
	if c.Idx%2 == 0 { // builder output
		var docs []*model.MDoc
		var mode uint32
		if jumbo {
			docs, _ = gen.JumboBatch(r, 1100+r.Intn(2200), fmt.Sprintf("j%d", c.Idx))
			gen.AddExactTerms(r, docs, "exact", gen.ExactSpec(len(docs)))
			mode = []uint32{1025, 1024, 100}[r.Intn(3)]
		} else if c.Idx%150 == 4 { // big stored values: stored blocks above 1 MiB uncompressed (decoder window limits)
			sch := gen.GenSchema(r)
			for i := range sch.Fields {
				sch.Fields[i].StoreP = 10
			}
			n := 130 + r.Intn(140)
			docs = gen.GenBatch(r, sch, n, fmt.Sprintf("B%d", c.Idx), gen.DocOpts{BigStored: true})
			mode = gen.Mode(r, n)
		} else {
			n := gen.BatchSize(r)
			docs = gen.GenBatch(r, gen.GenSchema(r), n, fmt.Sprintf("b%d", c.Idx), gen.DocOpts{Repeat: r.Intn(2) == 0})
			mode = gen.Mode(r, n)
		}
		desc = fmt.Sprintf("builder output: docs=%d chunk_mode=%d", len(docs), mode)
		var s segment.Segment
		panicked, msg, stack := runner.Try(func() { s, err = w.build(model.ToSegDocs(docs), mode) })
		if panicked {
			return nil, desc, "built", fmt.Errorf("panic in New: %s\n%s", msg, stack)
		}
		if err != nil {
			return nil, desc, "built", err
		}
		b, err = persist(s)
		return b, desc, "built", err
	}
	// merger output
	k := 1 + r.Intn(3)
	sch := gen.GenSchema(r)
	var segs []segment.Segment
	var drops []*roaring.Bitmap
	desc = "merger output:"
	tagDV := r.Intn(2) == 0
	sizes := make([]int, k)
	for i := range sizes {
		sizes[i] = 600 + r.Intn(900)
	}
	exact := gen.SplitExact(r, sizes)
	noDrops := jumbo && r.Intn(2) == 0 // then the merged terms m1024/m2048 have exactly that many documents
	for i := 0; i < k; i++ {
		var docs []*model.MDoc
		var mode uint32
		if jumbo {
			docs, _ = gen.JumboBatch(r, sizes[i], fmt.Sprintf("j%d.%d", c.Idx, i), tagDV)
			gen.AddExactTerms(r, docs, "exact", exact[i])
			mode = []uint32{1025, 1024, 64}[r.Intn(3)]
		} else {
			s2 := sch
			if r.Intn(2) == 0 {
				s2 = sch.Sub(r)
			}
			n := smallSize(r)
			docs = gen.GenBatch(r, s2, n, fmt.Sprintf("m%d.%d", c.Idx, i), gen.DocOpts{Repeat: r.Intn(2) == 0})
			mode = gen.Mode(r, n)
		}
		var s segment.Segment
		panicked, msg, stack := runner.Try(func() { s, err = w.build(model.ToSegDocs(docs), mode) })
		if panicked {
			return nil, desc, "merged", fmt.Errorf("panic in New: %s\n%s", msg, stack)
		}
		if err != nil {
			return nil, desc, "merged", err
		}
		segs = append(segs, s)
		d := gen.Drops(r, len(docs), -1)
		if noDrops {
			d = nil
		}
		drops = append(drops, d)
		ds := "nil"
		if d != nil {
			ds = clipS(d.String(), 40)
		}
		desc += fmt.Sprintf(" [docs=%d mode=%d drops=%s]", len(docs), mode, ds)
	}
	outMode := gen.SmallModes[r.Intn(len(gen.SmallModes))]
	if jumbo {
		outMode = []uint32{1025, 1024, 100}[r.Intn(3)]
	}
	desc += fmt.Sprintf(" out_mode=%d", outMode)
	panicked, msg, stack := runner.Try(func() { b, err = w.merge(segs, drops, outMode) })
	if panicked {
		return nil, desc, "merged", fmt.Errorf("panic in merge: %s\n%s", msg, stack)
	}
	return b, desc, "merged", err
}

func c10CrossRun(c *runner.Ctx) {
	// direction by phase: who writes
	writer, other := implCur, implRef
	dir := "cur-writes"
	if c.Phase == "reference-writer" {
		writer, other = implRef, implCur
		dir = "ref-writes"
	}
	b, desc, kind, err := c10Produce(c, writer)
	c.Eval(1)
	if err != nil {
		if writer.name == "current" {
			c.Note(fmt.Sprintf("case %d: current writer failed (C01/C02's business): %s", c.Idx, firstLine(err.Error())))
		} else {
			c.Note(fmt.Sprintf("case %d: reference writer failed: %s", c.Idx, firstLine(err.Error())))
		}
		return
	}
	own, err1 := readWith(writer, b)
	oth, err2 := readWith(other, b)
	where := fmt.Sprintf("%s written by the %s code (%d bytes); %s", kind, writer.name, len(b), desc)
	switch {
	case err1 != nil:
		c.Note(fmt.Sprintf("case %d: the %s code cannot read its own file (C04's business): %s", c.Idx, writer.name, firstLine(err1.Error())))
		return
	case err2 != nil:
		c.Violate("cross-read-error:"+dir+":"+kind+":"+errClass(err2), fmt.Sprintf("a %s file written by the %s code cannot be read by the %s code: %s", kind, writer.name, other.name, firstLine(err2.Error())), err2.Error()+"\n"+where)
		return
	case own != oth:
		c.Violate("cross-read-mismatch:"+dir+":"+kind+":"+classifyDiff(own, oth), fmt.Sprintf("the %s and the %s reader disagree on the same %s file written by the %s code: %s", writer.name, other.name, kind, writer.name, model.FirstDiff(own, oth)), where)
		return
	}
	c.Inc("files_agree."+dir+"."+kind, 1)
	ft, _ := parseFooter(b)
	if ft.NumDocs > 1024 {
		c.Inc("files_over_1024_docs."+dir, 1)
	}
	if ft.NumDocs > 128 {
		c.Inc("files_over_128_docs."+dir, 1)
	}
	c.Nontrivial(hashAny(dir, b), 1)
	if c.WantSample() && ft.NumDocs > 2 {
		c.Sample(map[string]interface{}{"direction": dir, "file": where, "footer": ft, "observation_lines": strings.Count(own, "\n")})
	}
}

func goldenDir() string { return filepath.Join(runner.VerifDir, "harness", "golden", "corpus") }

func goldenNames() []string {
	fs, _ := filepath.Glob(filepath.Join(goldenDir(), "*.ice"))
	var out []string
	for _, f := range fs {
		out = append(out, strings.TrimSuffix(filepath.Base(f), ".ice"))
	}
	sort.Strings(out)
	return out
}

func c10GoldenRun(c *runner.Ctx) {
	names := goldenNames()
	if c.Idx >= len(names) {
		return
	}
	name := names[c.Idx]
	b, err := os.ReadFile(filepath.Join(goldenDir(), name+".ice"))
	if err != nil {
		c.Note("cannot read golden file: " + err.Error())
		return
	}
	want, err := golden.ReadGz(filepath.Join(goldenDir(), name+".obs.gz"))
	if err != nil {
		c.Note("golden file without recorded observation: " + name)
		return
	}
	c.Eval(1)
	got, err := readWith(implCur, b)
	where := fmt.Sprintf("golden file %s (%d bytes) written by the original pinned commit", name, len(b))
	if err != nil {
		c.Violate("golden-read-error:"+shapeOf(name)+":"+errClass(err), fmt.Sprintf("the current code cannot read golden file %s: %s", name, firstLine(err.Error())), err.Error()+"\n"+where)
		return
	}
	if got != string(want) {
		c.Violate("golden-mismatch:"+shapeOf(name)+":"+classifyDiff(string(want), got), fmt.Sprintf("the current code reads golden file %s differently from the recorded observation: %s", name, model.FirstDiff(string(want), got)), where)
		return
	}
	// and re-persisting it reproduces the golden bytes (the format a current writer emits for the same content)
	c.Inc("golden_files_read_identically."+shapeOf(name), 1)
	c.Nontrivial(hashAny("golden", name), 1)
	if c.WantSample() {
		ft, _ := parseFooter(b)
		c.Sample(map[string]interface{}{"golden_file": name, "bytes": len(b), "footer": ft})
	}
}

func shapeOf(name string) string {
	if i := strings.Index(name, "-"); i >= 0 {
		return name[i+1:]
	}
	return name
}

// worker: (re)compute the recorded observations of the corpus with the REFERENCE
// reader and accept a file only if that observation equals the specification
// model of its recipe (postings, stored fields, doc values; statistics are
// recorded as written).
func init() {
	workers["golden-accept"] = func(args []string) int {
		dir := goldenDir()
		if len(args) > 0 {
			dir = args[0]
		}
		kept, dropped := 0, 0
		for _, name := range goldenNames() {
			rc, err := golden.ReadRecipe(filepath.Join(dir, name+".recipe.json.gz"))
			if err != nil {
				fmt.Println("no recipe:", name, err)
				return 1
			}
			var x *model.XSeg
			if rc.Kind == "built" {
				model.ToSegDocs(rc.Docs)
				x = model.Build(rc.Docs, model.NormCalc)
			} else {
				var xs []*model.XSeg
				var drops []*roaring.Bitmap
				for i, in := range rc.Inputs {
					model.ToSegDocs(in.Docs)
					xs = append(xs, model.Build(in.Docs, model.NormCalc))
					if rc.Drops[i] == nil {
						drops = append(drops, nil)
					} else {
						drops = append(drops, roaring.BitmapOf(rc.Drops[i]...))
					}
				}
				x, _ = model.Merge(xs, drops)
			}
			b, _ := os.ReadFile(filepath.Join(dir, name+".ice"))
			obs, err := readWith(implRef, b)
			ok := err == nil
			if ok {
				s, _ := implRef.load(exact(b))
				noStats, _ := observe.Observe(s, model.All)
				ok = noStats == x.Dump(model.All)
				if !ok {
					fmt.Println("drop (reference reader != specification, pinned writer defect):", name, strings.ReplaceAll(model.FirstDiff(x.Dump(model.All), noStats), "\n", " | "))
				}
			} else {
				fmt.Println("drop (reference reader fails):", name, firstLine(err.Error()))
			}
			if !ok {
				dropped++
				os.Remove(filepath.Join(dir, name+".ice"))
				os.Remove(filepath.Join(dir, name+".recipe.json.gz"))
				os.Remove(filepath.Join(dir, name+".obs.gz"))
				continue
			}
			if err := golden.WriteGz(filepath.Join(dir, name+".obs.gz"), obs); err != nil {
				fmt.Println(err)
				return 1
			}
			kept++
		}
		fmt.Printf("golden corpus: kept %d, dropped %d\n", kept, dropped)
		return 0
	}
}

func init() {
	register(&runner.Property{
		ID:    "C10",
		Level: "exploration",
		Rule: "two implementations: current (/repo working tree) and reference (frozen copy harness/refice = pinned commit + the format-neutral fix commits). phase current-writer: the current builder (even cases) or merger (odd cases; 1..3 built inputs, all deletion patterns) writes a file in a drawn chunk mode (incl. jumbo batches of 1100-3300 documents so that the 128-document stored block, the 1024-document doc-value chunk and adaptive posting chunks are all crossed); the reference reader and the current reader must observe the same bytes identically (all read APIs + statistics). phase reference-writer: the same with roles swapped. phase golden: every file of the corpus written once by the ORIGINAL pinned commit (built and merged, all modes, up to 3000 documents; recorded observation accepted only where it equals the specification) must be read by the current code exactly as recorded. " +
			"oracle = equality of observation texts of two readers on the same bytes (never byte equality of two writers); evaluations = files; non-trivial = every file both readers agree on, distinct by content hash / golden name",
		Assumptions: append([]string{"harness/refice is trusted as the pinned reference reader/writer (diff against the pinned commit: refice/PINNED.diff)", "golden files were written by commit 76983be with only the verif hook file added"}, InputContract...),
		Phases: []runner.Phase{
			{Name: "current-writer", Cases: cases(5000, 120000), Run: c10CrossRun},
			{Name: "reference-writer", Cases: cases(5000, 120000), Run: c10CrossRun},
			{Name: "golden", Cases: func(string) int { return len(goldenNames()) }, Run: c10GoldenRun},
		},
		Floors: func(string) map[string]int64 {
			return map[string]int64{"files_over_1024_docs.cur-writes": 2, "files_over_1024_docs.ref-writes": 2, "files_agree.cur-writes.merged": 100, "files_agree.ref-writes.merged": 100, "golden_files_read_identically.built-jumbo": 3, "golden_files_read_identically.merged-small": 30}
		},
	})
}
