package props

import (
	"fmt"

	"github.com/RoaringBitmap/roaring"

	ice "github.com/blugelabs/ice/v2"

	"verif/harness/gen"
	"verif/harness/model"
	"verif/harness/runner"
)

// C16 — collection statistics describe the documents actually in the segment.

// c16StepWorld: document counts and token totals of a field on and around the steps at which the uvarints
// holding the per-field statistics in the persisted field table grow by a byte (2^7, 2^14, 2^21, 2^28):
// 127..129 or 16383..16385 documents carrying the field, token total within +-2 of a step. Built, loaded
// (memory and file) and re-merged.
func c16StepWorld(c *runner.Ctx) (*gen.World, error) {
	r := c.R
	n := []int{127, 128, 129, 16383, 16384, 16385}[r.Intn(6)]
	total := []int{1 << 14, 1 << 21, 1 << 28}[r.Intn(3)] - 2 + r.Intn(5)
	if total < n {
		total = 1<<21 - 2 + r.Intn(5)
	}
	docs := make([]*model.MDoc, n)
	per, rest := total/n, total%n
	for i := range docs {
		f := per
		if i == n-1 {
			f += rest
		}
		docs[i] = &model.MDoc{Fields: []*model.MField{
			{N: "_id", Terms: []*model.MTerm{{T: []byte(fmt.Sprintf("v%d-%d", c.Idx, i)), F: 1}}},
			{N: "s", Terms: []*model.MTerm{{T: []byte("x"), F: f}}},
		}}
	}
	w := &gen.World{}
	b, err := gen.BuildSeg(docs, 1025)
	if err != nil {
		return w, err
	}
	w.Segs = append(w.Segs, b)
	for _, file := range []bool{false, true} {
		l, err := b.Reload(c.TmpDir, file)
		if err != nil {
			return w, err
		}
		w.Segs = append(w.Segs, l)
	}
	m, _, err := gen.MergeSegs([]*gen.Seg{b}, []*roaring.Bitmap{nil}, 1025)
	if err != nil {
		return w, err
	}
	w.Segs = append(w.Segs, m)
	return w, nil
}

func c16Run(c *runner.Ctx) {
	var w *gen.World
	var err error
	shape := "random"
	if c.Idx%2 == 1 { // hostile history: aborted and cancelled merges precede the merges whose statistics are checked
		abortedMergeHistory(c)
	}
	if c.Idx%100 == 7 {
		shape = "varint-steps"
		w, err = c16StepWorld(c)
	} else if c.Idx%200 == 0 {
		shape = "jumbo"
		w, err = gen.GenWorld(c.R, c.TmpDir, fmt.Sprintf("w%d", c.Idx), gen.WorldOpts{Jumbo: true})
	} else {
		w, err = gen.GenWorld(c.R, c.TmpDir, fmt.Sprintf("w%d", c.Idx), gen.WorldOpts{MaxDocs: 140})
	}
	c.Inc("shape."+shape, 1)
	if w = usable(c, w, err); w == nil {
		return
	}
	defer w.Close()
	for si, sg := range w.Segs {
		desc := func() string {
			return fmt.Sprintf("segment %d: kind=%s mode=%d docs=%d fields=%q\nexpected statistics:\n%s", si, sg.Kind, sg.Mode, len(sg.X.Docs), sg.X.Fields, sg.X.Dump(model.StatsOnly))
		}
		fields := append([]string{}, sg.X.Fields...)
		fields = append(fields, "no-such-field", "")
		interesting := false
		for _, f := range fields {
			c.Eval(1)
			cs, err := sg.S.CollectionStats(f)
			if err != nil || cs == nil {
				c.Violate("error", fmt.Sprintf("CollectionStats(%q) failed: %v", f, err), desc())
				continue
			}
			want := sg.X.Stats(f)
			got := model.XStats{Total: cs.TotalDocumentCount(), Docs: cs.DocumentCount(), SumTTF: cs.SumTotalTermFrequency()}
			if got != want {
				what := "sumttf"
				switch {
				case got.Total != want.Total:
					what = "total"
				case got.Docs != want.Docs:
					what = "doccount"
				}
				known := "known"
				if !sg.X.HasField(f) {
					known = "unknown"
				}
				origin := "built"
				if sg.X.Merged {
					origin = "merged"
				}
				c.Violate("stats:"+what+":"+origin+":"+known, fmt.Sprintf("CollectionStats(%q) of a %s segment (%s) = %+v, expected %+v", f, sg.Kind, origin, got, want), desc())
				continue
			}
			if want.SumTTF > want.Docs && want.Docs > 0 {
				interesting = true // frequencies > 1 or several terms per document
			}
			// CollectionStats.Merge adds component-wise
			acc := &ice.CollectionStats{}
			acc.Merge(cs)
			acc.Merge(cs)
			cs2, _ := sg.S.CollectionStats(sg.X.Fields[0])
			acc.Merge(cs2)
			// expectation from the values actually returned, so that this oracle is independent of the one above
			exp := model.XStats{Total: 2*got.Total + cs2.TotalDocumentCount(), Docs: 2*got.Docs + cs2.DocumentCount(), SumTTF: 2*got.SumTTF + cs2.SumTotalTermFrequency()}
			gotm := model.XStats{Total: acc.TotalDocumentCount(), Docs: acc.DocumentCount(), SumTTF: acc.SumTotalTermFrequency()}
			if gotm != exp {
				c.Violate("merge-add", fmt.Sprintf("CollectionStats.Merge is not component-wise addition: got %+v expected %+v", gotm, exp), desc())
			}
			// the returned object belongs to the caller: merging other statistics INTO it must not change the segment's answer
			if held, _ := sg.S.CollectionStats(f); held != nil {
				held.Merge(cs2)
				held.Merge(cs)
			}
			cs3, _ := sg.S.CollectionStats(f)
			if cs3.TotalDocumentCount() != want.Total || cs3.DocumentCount() != want.Docs || cs3.SumTotalTermFrequency() != want.SumTTF {
				c.Violate("merge-aliasing", fmt.Sprintf("CollectionStats(%q) changed after Merge was called on an earlier result", f), desc())
			}
		}
		c.Inc("segments."+sg.Kind, 1)
		if sg.X.Merged {
			c.Inc("segments_merged_origin", 1)
		}
		if interesting {
			c.Nontrivial(hashAny(sg.X.Dump(model.StatsOnly), sg.Kind), 1)
		}
		if c.WantSample() && len(sg.X.Docs) > 1 && sg.X.Merged {
			c.Sample(map[string]interface{}{"kind": sg.Kind, "docs": len(sg.X.Docs), "expected_and_observed_statistics": sg.X.Dump(model.StatsOnly)})
		}
	}
}

func init() {
	register(&runner.Property{
		ID:    "C16",
		Level: "exploration",
		Rule: "cases = worlds (built, loaded, merged, merge-of-merge segments, one jumbo world); one evaluation per (segment, field) incl. two unknown field names: CollectionStats == specification (TotalDocumentCount=Count, DocumentCount = docs carrying the field for built/loaded-built, surviving docs with >=1 term for merged origin, SumTotalTermFrequency = sum of frequencies), zero for unknown fields, Merge adds component-wise; " +
			"non-trivial = segment with a field whose SumTotalTermFrequency exceeds its DocumentCount (frequencies >1 or several terms per doc); distinct by the expected statistics text",
		Assumptions: InputContract,
		Phases:      []runner.Phase{{Name: "stats", Cases: cases(2000, 50000), Run: c16Run}},
		Floors: func(string) map[string]int64 {
			return map[string]int64{"segments_merged_origin": 200, "segments.built": 100}
		},
	})
}
