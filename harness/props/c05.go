package props

import (
	"fmt"
	"sort"

	"verif/harness/gen"
	"verif/harness/runner"
)

// C05 — postings iterators navigate correctly under Next/Advance, exclusions and flags.

func c05World(c *runner.Ctx) (*gen.World, string, error) {
	r := c.R
	if c.Idx%150 == 0 {
		w, err := gen.GenWorld(r, c.TmpDir, fmt.Sprintf("w%d", c.Idx), gen.WorldOpts{Jumbo: true})
		return w, "jumbo", err
	}
	if c.Idx%150 == 1 { // a segment of exactly 1023 / 1024 / 1025 / 2048 documents with a term in every document, adaptive chunking
		n := []int{1024, 1023, 1025, 2048}[(c.Idx/150)%4]
		w, err := gen.GenWorld(r, c.TmpDir, fmt.Sprintf("w%d", c.Idx), gen.WorldOpts{Jumbo: true, JumboN: n, Bases: 2})
		return w, "jumbo", err
	}
	o := gen.WorldOpts{MaxDocs: 60, MinDocs: 4}
	if r.Intn(5) > 0 {
		o.FixedMode = []uint32{1, 2, 3, 5, 7}[r.Intn(5)]
	}
	w, err := gen.GenWorld(r, c.TmpDir, fmt.Sprintf("w%d", c.Idx), o)
	return w, "small-chunks", err
}

func c05Run(c *runner.Ctx) {
	r := c.R
	w, shape, err := c05World(c)
	c.Inc("worlds."+shape, 1)
	if w = usable(c, w, err); w == nil {
		return
	}
	defer w.Close()
	perSeg := 24
	if shape == "jumbo" {
		perSeg = 12
	}
	for _, sg := range w.Segs {
		type ft struct{ f, t string }
		var cands []ft
		for _, f := range sg.X.Fields {
			for _, t := range sg.X.Terms(f) {
				cands = append(cands, ft{f, t})
			}
		}
		long := append([]ft(nil), cands...)
		sort.SliceStable(long, func(i, j int) bool { return len(sg.X.DocsOf(long[i].f, long[i].t)) > len(sg.X.DocsOf(long[j].f, long[j].t)) })
		if len(long) > 12 {
			long = long[:12]
		}
		for k := 0; k < perSeg; k++ {
			var q navReq
			q.sg = sg
			q.sig = "nav:"
			switch x := r.Intn(12); {
			case x == 0 || len(cands) == 0: // absent term / unknown field
				q.field = "no-such-field"
				if len(sg.X.Fields) > 0 && r.Intn(2) == 0 {
					q.field = sg.X.Fields[r.Intn(len(sg.X.Fields))]
				}
				q.term = "absent-term"
			case x < 6 && len(long) > 0: // one of the segment's longest lists (multi-chunk lists, the term present in every document …)
				a := long[r.Intn(len(long))]
				q.field, q.term = a.f, a.t
			default:
				// prefer long lists: pick the longer of two candidates
				a, b := cands[r.Intn(len(cands))], cands[r.Intn(len(cands))]
				if len(sg.X.DocsOf(b.f, b.t)) > len(sg.X.DocsOf(a.f, a.t)) && r.Intn(4) > 0 {
					a = b
				}
				q.field, q.term = a.f, a.t
			}
			d, err := sg.S.Dictionary(q.field)
			if err != nil {
				c.Violate("nav:error:Dictionary", fmt.Sprintf("Dictionary(%q): %v", q.field, err), "")
				continue
			}
			q.dict = d
			full := sg.X.DocsOf(q.field, q.term)
			cs := uint64(sg.Mode)
			if cs > 1024 {
				cs = 0
			}
			q.except = genExcept(r, len(sg.X.Docs), full, cs)
			q.fl = [3]bool{r.Intn(2) == 0, r.Intn(2) == 0, r.Intn(2) == 0}
			q.replace = r.Intn(5) == 0
			q.stopAt = 1
			_, _, st, ok := navigate(c, r, q)
			c.Eval(1)
			if !ok {
				continue
			}
			c.Inc("steps", int64(st.steps))
			c.Inc("advances", int64(st.advances))
			c.Inc("skips_within_chunk", int64(st.skipWithin))
			c.Inc("skips_across_chunks", int64(st.skipAcross))
			c.Inc("skips_over_excluded", int64(st.skipExcluded))
			c.Inc("flags."+flagsStr(q.fl), 1)
			switch {
			case st.oneHit:
				c.Inc("lists_1hit", 1)
				if q.except != nil {
					c.Inc("lists_1hit_with_exclusion", 1)
				}
			case st.empty:
				c.Inc("lists_absent", 1)
			default:
				c.Inc("lists_general", 1)
			}
			if st.replaced {
				c.Inc("lists_replace_actual", 1)
			}
			if st.atEnd {
				c.Inc("sequences_reaching_end", 1)
			}
			c.Max("max_chunks_in_list", int64(st.chunksInList))
			if st.skipAcross > 0 || st.skipExcluded > 0 {
				c.Nontrivial(hashAny(sg.Kind, sg.Mode, q.field, q.term, fmt.Sprint(full), exStr(q), flagsStr(q.fl), fmt.Sprint(st.trace)), 1)
				if c.WantSample() && len(full) < 40 {
					c.Sample(map[string]interface{}{"segment_kind": sg.Kind, "chunk_mode": sg.Mode, "field": q.field, "term": q.term, "list": full, "except": exStr(q), "flags": flagsStr(q.fl), "replace_actual": st.replaced, "calls_and_results": st.trace})
				}
			}
		}
	}
}

func exStr(q navReq) string {
	if q.except == nil {
		return "nil"
	}
	return clipS(q.except.String(), 160)
}

func init() {
	register(&runner.Property{
		ID:    "C05",
		Level: "exploration",
		Rule: "cases = worlds with fixed chunk sizes 1,2,3,5,7 (many chunk crossings on short lists) or drawn modes, plus jumbo worlds (adaptive chunking, lists >1024 docs); per segment 12-24 sequences: a term (general, 1-hit, absent, unknown field), an exclusion bitmap (nil, random, whole chunks, everything, most/few of the list) or ReplaceActual(subset) on 20% of general lists, one of the 8 flag combinations, and len(live)+3 steps mixing Next and Advance(target) with non-decreasing targets > last returned (same, +small, +chunk multiples, near a later posting, beyond the end); " +
			"oracle = model list scan: returned document (or nil, which must stay nil), and freq/norm when any flag is set, locations when requested; Count()==non-excluded postings; one evaluation per sequence; non-trivial = sequence with >=1 Advance that skips >=1 posting across a chunk boundary or over an excluded posting; distinct by (list, exclusion, flags, call trace)",
		Assumptions: append([]string{"Advance targets are non-decreasing and greater than the last returned number (bluge_segment_api contract)", "ReplaceActual only right after iterator creation, with a subset of the non-excluded postings, never on a 1-hit list", "freq/norm are compared only if at least one of the three flags is set; locations only if requested"}, InputContract...),
		Phases:      []runner.Phase{{Name: "navigate", Cases: cases(3000, 80000), Run: c05Run}},
		Floors: func(string) map[string]int64 {
			return map[string]int64{"skips_across_chunks": 2000, "skips_over_excluded": 1000, "lists_1hit": 200, "lists_1hit_with_exclusion": 50, "lists_replace_actual": 200, "sequences_reaching_end": 5000, "max_chunks_in_list": 3}
		},
	})
}
