package props

import (
	"crypto/sha256"
	"encoding/hex"
	"fmt"
	"math/rand"
	"os"
	"os/exec"
	"runtime"
	"strconv"
	"strings"
	"sync"

	segment "github.com/blugelabs/bluge_segment_api"
	ice "github.com/blugelabs/ice/v2"

	"verif/harness/gen"
	"verif/harness/model"
	"verif/harness/runner"
)

// C14 — builder output depends only on its input, not on history or concurrency.
// Reference bytes of every job come from a FRESH process in which the job is
// the very first build (cold builder pool); the case process then builds the
// jobs again after long random histories and from concurrent goroutines.

type c14Job struct {
	docs []*model.MDoc
	mode uint32
	norm int // which norm function the build uses (the output depends on batch, norm function and chunk mode only)
}

func c14Norm(v int) func(string, int) float32 {
	if v == 1 {
		return func(field string, l int) float32 { return 1 / float32(l+2) }
	}
	return model.NormCalc
}

const c14JobsPerCase = 10

func c14Jobs(seed int64, caseIdx int) []c14Job {
	r := runner.CaseRand(seed, "C14", "jobs", caseIdx)
	var jobs []c14Job
	schA, schB := gen.GenSchema(r), gen.GenSchema(r)
	for j := 0; j < c14JobsPerCase; j++ {
		sch := schA
		if j%3 == 2 {
			sch = schB // other field count; doc-value flags differ at the same field id
		}
		n := gen.BatchSize(r)
		if j == 0 {
			n = 300 + r.Intn(300) // a large batch leaves capacity in the pooled state for the smaller ones
		}
		if j == 1 {
			n = 1
		}
		docs := gen.GenBatch(r, sch, n, fmt.Sprintf("c%dj%d", caseIdx, j), gen.DocOpts{Repeat: r.Intn(2) == 0})
		if j == 2 {
			// more than 1024 documents with doc values: per-field doc-value state sized for 2+ chunks precedes small builds
			docs, _ = gen.JumboBatch(r, 1100+r.Intn(1100), fmt.Sprintf("c%dj%d", caseIdx, j))
		}
		model.ToSegDocs(docs)
		jobs = append(jobs, c14Job{docs, gen.Mode(r, n), j % 2})
	}
	return jobs
}

func c14Build(j c14Job) (string, error) {
	var s segment.Segment
	var err error
	panicked, msg, stack := runner.Try(func() {
		s, _, err = ice.VerifNew(model.ToSegDocs(j.docs), c14Norm(j.norm), j.mode)
	})
	if panicked {
		return "", fmt.Errorf("panic in New: %s\n%s", msg, stack)
	}
	if err != nil {
		return "", err
	}
	b, _, err := gen.Persist(s)
	if err != nil {
		return "", err
	}
	h := sha256.Sum256(b)
	return hex.EncodeToString(h[:8]) + fmt.Sprintf("/%d", len(b)), nil
}

func init() {
	workers["c14ref"] = func(args []string) int {
		seed, _ := strconv.ParseInt(args[0], 10, 64)
		ci, _ := strconv.Atoi(args[1])
		ji, _ := strconv.Atoi(args[2])
		jobs := c14Jobs(seed, ci)
		h, err := c14Build(jobs[ji])
		if err != nil {
			fmt.Println("ERR", firstLine(err.Error()))
			return 1
		}
		fmt.Println("REF", h)
		return 0
	}
}

func c14Refs(c *runner.Ctx) ([]string, bool) {
	refs := make([]string, c14JobsPerCase)
	var wg sync.WaitGroup
	errs := make([]error, c14JobsPerCase)
	for j := 0; j < c14JobsPerCase; j++ {
		wg.Add(1)
		go func(j int) {
			defer wg.Done()
			out, err := exec.Command(os.Args[0], "-worker", "c14ref", strconv.FormatInt(c.Seed, 10), strconv.Itoa(c.Idx), strconv.Itoa(j)).CombinedOutput()
			s := strings.TrimSpace(string(out))
			if err != nil || !strings.HasPrefix(s, "REF ") {
				errs[j] = fmt.Errorf("reference worker failed: %v %s", err, clipS(s, 300))
				return
			}
			refs[j] = strings.TrimPrefix(s, "REF ")
		}(j)
	}
	wg.Wait()
	for _, e := range errs {
		if e != nil {
			c.Note(fmt.Sprintf("case %d: %v", c.Idx, e))
			return nil, false
		}
	}
	return refs, true
}

func c14Mismatch(c *runner.Ctx, phase string, ji int, j c14Job, got, ref string, hist string) {
	c.Violate("nondeterministic:"+phase, fmt.Sprintf("%s: build of job %d (docs=%d mode=%d) produced bytes %s, the same job built first in a fresh process produced %s", phase, ji, len(j.docs), j.mode, got, ref), hist)
}

func c14HistoryRun(c *runner.Ctx) {
	r := c.R
	jobs := c14Jobs(c.Seed, c.Idx)
	refs, ok := c14Refs(c)
	if !ok {
		return
	}
	old := runtime.GOMAXPROCS(1) // one P: the single builder goroutine keeps hitting the same pool shard
	defer runtime.GOMAXPROCS(old)
	builds := tierN(c.Tier, 250, 1500)
	var hist []string
	for k := 0; k < builds; k++ {
		if r.Intn(12) == 0 {
			// a failing build (unknown chunk mode) in between
			_, _, err := ice.VerifNew(model.ToSegDocs(jobs[r.Intn(len(jobs))].docs), model.NormCalc, 5000+uint32(r.Intn(10)))
			if err != nil { // (a batch without any term never asks for a chunk size and succeeds)
				c.Inc("failed_builds_in_history", 1)
				hist = append(hist, "fail")
			}
			continue
		}
		if k%10 == 0 && ice.VerifPoolProbe() {
			c.Inc("pool_probe_found_used_state", 1)
		}
		ji := r.Intn(len(jobs))
		got, err := c14Build(jobs[ji])
		c.Eval(1)
		hist = append(hist, strconv.Itoa(ji))
		if len(hist) > 40 {
			hist = hist[1:]
		}
		if err != nil {
			c.Violate("build-error:history", fmt.Sprintf("build of job %d failed after a history of builds: %s", ji, firstLine(err.Error())), err.Error())
			return
		}
		if got != refs[ji] {
			c14Mismatch(c, "history", ji, jobs[ji], got, refs[ji], "preceding builds (job indices, oldest first): "+strings.Join(hist, " "))
			return
		}
		c.Inc("builds_equal_to_cold_reference", 1)
	}
	c.Nontrivial(hashAny("history", c.Idx, strings.Join(refs, ",")), int64(len(jobs)))
	if c.WantSample() {
		var js []map[string]interface{}
		for i, j := range jobs {
			js = append(js, map[string]interface{}{"docs": len(j.docs), "chunk_mode": j.mode, "cold_reference_hash/len": refs[i]})
		}
		c.Sample(map[string]interface{}{"jobs": js, "builds_in_history": builds, "last_builds": hist})
	}
}

func c14ConcurrentRun(c *runner.Ctx) {
	jobs := c14Jobs(c.Seed, c.Idx)
	refs, ok := c14Refs(c)
	if !ok {
		return
	}
	workersN := 16
	per := tierN(c.Tier, 25, 120)
	var wg sync.WaitGroup
	seeds := make([]int64, workersN)
	for g := range seeds {
		seeds[g] = c.R.Int63()
	}
	for g := 0; g < workersN; g++ {
		wg.Add(1)
		go func(g int) {
			defer wg.Done()
			r := rand.New(rand.NewSource(seeds[g]))
			for k := 0; k < per; k++ {
				ji := r.Intn(len(jobs))
				got, err := c14Build(jobs[ji])
				c.Eval(1)
				if err != nil {
					c.Violate("build-error:concurrent", fmt.Sprintf("concurrent build of job %d failed: %s", ji, firstLine(err.Error())), err.Error())
					return
				}
				if got != refs[ji] {
					c14Mismatch(c, "concurrent", ji, jobs[ji], got, refs[ji], fmt.Sprintf("%d goroutines building random jobs", workersN))
					return
				}
				c.Inc("concurrent_builds_equal_to_cold_reference", 1)
			}
		}(g)
	}
	wg.Wait()
	c.Nontrivial(hashAny("concurrent", c.Phase, c.Idx, strings.Join(refs, ",")), int64(len(jobs)))
}

func init() {
	register(&runner.Property{
		ID:    "C14",
		Level: "exploration",
		Rule: "cases = 10 jobs (batch, chunk mode) from two schemas (different field counts, doc-value flags at the same field id), one 300-600-document batch and one single-document batch among them; the reference hash of every job comes from a fresh process in which that job is the first build (cold pool); history phase: 250 (thorough 1500) builds of random jobs in one goroutine on one P, interleaved with failing builds (unknown chunk mode), VerifPoolProbe sampled as evidence of real reuse; concurrent phases (plain and race build): 16 goroutines x 25 (thorough 120) builds; " +
			"oracle = SHA-256 of Segment.WriteTo bytes equals the job's cold reference; evaluations = builds compared; non-trivial = each distinct job (hash of case and reference hashes)",
		Assumptions: InputContract,
		Phases: []runner.Phase{
			{Name: "history", Cases: cases(24, 300), Run: c14HistoryRun},
			{Name: "concurrent", Cases: cases(8, 100), Run: c14ConcurrentRun, Procs: func(string) int { return 4 }},
			{Name: "concurrent-race", Race: true, Cases: cases(4, 40), Run: c14ConcurrentRun, Procs: func(string) int { return 4 }},
		},
		Floors: func(string) map[string]int64 {
			return map[string]int64{"pool_probe_found_used_state": 20, "builds_equal_to_cold_reference": 1000, "concurrent_builds_equal_to_cold_reference": 1000, "failed_builds_in_history": 50}
		},
	})
}
