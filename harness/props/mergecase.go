package props

import (
	"fmt"
	"math/rand"
	"strings"

	"github.com/RoaringBitmap/roaring"

	"verif/harness/gen"
	"verif/harness/model"
)

// mergeCase is one generated merge: real input segments with their models,
// deletion bitmaps and the output chunk mode.
type mergeCase struct {
	Shape   string
	Inputs  []*gen.Seg
	Drops   []*roaring.Bitmap
	OutMode uint32
	Err     error // building an input failed (reported by the caller)
}

func (m *mergeCase) Close() {
	for _, s := range m.Inputs {
		s.Close()
	}
}

func (m *mergeCase) Describe() string {
	var b strings.Builder
	fmt.Fprintf(&b, "shape=%s out_mode=%d inputs=%d\n", m.Shape, m.OutMode, len(m.Inputs))
	for i, s := range m.Inputs {
		d := "nil"
		if m.Drops[i] != nil {
			d = fmt.Sprintf("%d dropped %s", m.Drops[i].GetCardinality(), clipS(m.Drops[i].String(), 120))
		}
		fmt.Fprintf(&b, "  input %d: kind=%s mode=%d docs=%d fields=%q drops=%s\n", i, s.Kind, s.Mode, len(s.X.Docs), s.X.Fields, d)
	}
	return b.String()
}

func (m *mergeCase) Summary() map[string]interface{} {
	ins := []map[string]interface{}{}
	for i, s := range m.Inputs {
		e := map[string]interface{}{"kind": s.Kind, "chunk_mode": s.Mode, "docs": len(s.X.Docs), "fields": s.X.Fields}
		if m.Drops[i] == nil {
			e["drops"] = nil
		} else {
			e["drops"] = clipS(m.Drops[i].String(), 100)
		}
		if s.Docs != nil && len(s.Docs) > 0 && len(s.Docs) <= 2 {
			e["documents"] = s.Docs
		}
		ins = append(ins, e)
	}
	return map[string]interface{}{"shape": m.Shape, "out_chunk_mode": m.OutMode, "inputs": ins}
}

// Hash is the canonical descriptor hash of the case.
func (m *mergeCase) Hash() uint64 {
	var parts []interface{}
	parts = append(parts, m.OutMode)
	for i, s := range m.Inputs {
		parts = append(parts, s.X.Dump(model.All), s.Mode, s.Kind)
		if m.Drops[i] == nil {
			parts = append(parts, "nil")
		} else {
			parts = append(parts, m.Drops[i].String())
		}
	}
	return hashParts(parts)
}

func (m *mergeCase) fieldsSame() bool {
	for _, s := range m.Inputs {
		if strings.Join(s.X.Fields, "\x01") != strings.Join(m.Inputs[0].X.Fields, "\x01") {
			return false
		}
	}
	return true
}

func (m *mergeCase) anyDrop() bool {
	for _, d := range m.Drops {
		if d != nil && !d.IsEmpty() {
			return true
		}
	}
	return false
}

func (m *mergeCase) survivors() int {
	n := 0
	for i, s := range m.Inputs {
		n += len(s.X.Docs)
		if m.Drops[i] != nil {
			n -= int(m.Drops[i].GetCardinality())
		}
	}
	return n
}

// buildInput builds one input segment: a plain built segment, a loaded twin,
// or (depth permitting) the result of an earlier merge.
func buildInput(r *rand.Rand, sch *gen.Schema, n int, prefix string, tmp string, depth int) (*gen.Seg, error) {
	if depth > 0 && r.Intn(4) == 0 {
		// previously merged input
		k := 1 + r.Intn(2)
		var ins []*gen.Seg
		var drops []*roaring.Bitmap
		for i := 0; i < k; i++ {
			s, err := buildInput(r, sch, max(1, n/k), fmt.Sprintf("%s.m%d", prefix, i), tmp, depth-1)
			if err != nil {
				return nil, err
			}
			ins = append(ins, s)
			pat := r.Intn(7)
			if pat == 4 && r.Intn(3) > 0 { // "everything" less often inside nested inputs
				pat = 2
			}
			drops = append(drops, gen.Drops(r, len(s.X.Docs), pat))
		}
		out, _, err := gen.MergeSegs(ins, drops, gen.Mode(r, n))
		for _, s := range ins {
			s.Close()
		}
		if err != nil {
			return nil, fmt.Errorf("building a merged input failed: %w", err)
		}
		return out, nil
	}
	docs := gen.GenBatch(r, sch, n, prefix, gen.DocOpts{Repeat: r.Intn(3) > 0})
	s, err := gen.BuildSeg(docs, gen.Mode(r, n))
	if err != nil {
		return nil, err
	}
	switch r.Intn(5) {
	case 0:
		t, err := s.Reload(tmp, false)
		if err != nil {
			return nil, err
		}
		t.Docs = docs
		return t, nil
	case 1:
		t, err := s.Reload(tmp, true)
		if err != nil {
			return nil, err
		}
		t.Docs = docs
		return t, nil
	}
	return s, nil
}

func smallSize(r *rand.Rand) int {
	switch x := r.Intn(100); {
	case x < 5:
		return 0
	case x < 12:
		return 1
	case x < 80:
		return 2 + r.Intn(10)
	case x < 95:
		return 12 + r.Intn(60)
	default:
		return []int{127, 128, 129, 200, 257}[r.Intn(5)]
	}
}

// genMergeCase draws a merge. Forced shapes are selected by idx.
func genMergeCase(r *rand.Rand, idx int, tier string, tmp string) *mergeCase {
	m := &mergeCase{}
	fail := func(err error) *mergeCase { m.Err = err; return m }
	sch := gen.GenSchema(r)
	if idx%16 == 9 { // field names of >= 128 bytes
		sch.LongNames()
	}
	add := func(s *gen.Seg, err error, d *roaring.Bitmap) bool {
		if err != nil {
			m.Err = err
			return false
		}
		m.Inputs = append(m.Inputs, s)
		m.Drops = append(m.Drops, d)
		return true
	}
	m.OutMode = gen.SmallModes[r.Intn(len(gen.SmallModes))]
	forced := idx % 500
	switch {
	case forced == 0: // nothing survives
		m.Shape = "zero-survivors"
		k := 1 + r.Intn(3)
		for i := 0; i < k; i++ {
			n := 1 + r.Intn(8)
			if k > 1 && r.Intn(3) == 0 {
				n = 0 // a zero-document input inside a merge where nothing survives
			}
			s, err := buildInput(r, sch, n, fmt.Sprintf("i%d", i), tmp, 0)
			if !add(s, err, gen.Drops(r, n, 4)) {
				return m
			}
		}
	case forced == 1: // inputs with zero documents mixed in
		m.Shape = "empty-inputs"
		for i := 0; i < 3; i++ {
			n := []int{0, 5, 0}[i]
			s, err := buildInput(r, sch, n, fmt.Sprintf("i%d", i), tmp, 0)
			if !add(s, err, gen.Drops(r, n, pick(r, 0, 1, 2))) {
				return m
			}
		}
	case forced == 2: // single input, nothing dropped (identity)
		m.Shape = "single-input"
		n := 3 + r.Intn(40)
		s, err := buildInput(r, sch, n, "i0", tmp, 1)
		if !add(s, err, nil) {
			return m
		}
	case forced == 3 || forced == 4: // jumbo: >1024 survivors in a doc-value field
		m.Shape = "jumbo"
		m.OutMode = []uint32{1025, 1024, 100}[r.Intn(3)]
		k := 2 + r.Intn(2)
		tagDV := r.Intn(2) == 0
		sizes := make([]int, k)
		dropsPre := make([]*roaring.Bitmap, k)
		for i := range sizes {
			sizes[i] = 700 + r.Intn(900)
			if forced != 4 {
				dropsPre[i] = gen.Drops(r, sizes[i], pick(r, 0, 2, 5, 6))
			}
		}
		exact := gen.SplitExact(r, sizes) // without deletions (forced == 4) the merged terms m1024/m2048 have exactly that many documents
		// with deletions: terms s1023/s1024/s1025/s2048 whose SURVIVING cardinality is exactly that, while further
		// occurrences sit in deleted documents (a merger that counts before applying deletions lands on the other
		// side of the 1024 chunking constant)
		surv := boundarySurvivors(r, sizes, dropsPre)
		for i := 0; i < k; i++ {
			n := sizes[i]
			docs, _ := gen.JumboBatch(rand.New(rand.NewSource(r.Int63())), n, fmt.Sprintf("j%d", i), tagDV)
			gen.AddExactTerms(r, docs, "exact", exact[i])
			if forced != 4 {
				gen.AddTermDocs(docs, "exact", surv[i])
			}
			s, err := gen.BuildSeg(docs, []uint32{1025, 1024, 64}[r.Intn(3)])
			if !add(s, err, dropsPre[i]) {
				return m
			}
		}
		if forced != 4 {
			// a previously merged tiny input in which those terms are 1-hit encoded, and whose carrier document is deleted now
			tiny := gen.GenBatch(r, &gen.Schema{IDP: 10, Fields: []gen.FieldSpec{{Name: "body", DV: true, Vocab: []string{"common"}}}}, 3, "tiny", gen.DocOpts{})
			gen.AddTermDocs(tiny, "exact", map[string][]int{"s1023": {1}, "s1024": {1}, "s1025": {1}, "s2048": {1}})
			ts, err := gen.BuildSeg(tiny, 1025)
			if err == nil {
				var tm *gen.Seg
				tm, _, err = gen.MergeSegs([]*gen.Seg{ts}, []*roaring.Bitmap{nil}, 1025)
				ts.Close()
				pos := r.Intn(len(m.Inputs) + 1)
				if err == nil {
					m.Inputs = append(m.Inputs[:pos], append([]*gen.Seg{tm}, m.Inputs[pos:]...)...)
					m.Drops = append(m.Drops[:pos], append([]*roaring.Bitmap{roaring.BitmapOf(1)}, m.Drops[pos:]...)...)
				}
			}
			if err != nil {
				m.Err = err
				return m
			}
		}
	case forced == 6: // wide schemas: field ids above 127 are remapped by the merge
		m.Shape = "wide"
		wide := gen.WideSchema(r, 140+r.Intn(120))
		k := 2 + r.Intn(2)
		for i := 0; i < k; i++ {
			n := 20 + r.Intn(80)
			sub := &gen.Schema{IDP: wide.IDP, Fields: wide.Fields[r.Intn(40):]}
			s, err := gen.BuildSeg(gen.WideBatch(r, sub, n, fmt.Sprintf("w%d", i)), gen.Mode(r, n))
			if !add(s, err, gen.Drops(r, n, -1)) {
				return m
			}
		}
	case forced == 5: // everything survives, identical field lists: byte-copy stored path
		m.Shape = "copy-path"
		k := 2 + r.Intn(2)
		for i := 0; i < k; i++ {
			n := 130 + r.Intn(60)
			docs := gen.GenBatch(r, sch, n, fmt.Sprintf("i%d", i), gen.DocOpts{Repeat: true})
			s, err := gen.BuildSeg(docs, gen.Mode(r, n))
			if !add(s, err, pickDrop(r, nil, roaring.New())) {
				return m
			}
		}
	default:
		m.Shape = "random"
		k := 1 + r.Intn(4)
		sub := r.Intn(2) == 0
		for i := 0; i < k; i++ {
			s2 := sch
			if sub {
				s2 = sch.Sub(r)
			}
			n := smallSize(r)
			s, err := buildInput(r, s2, n, fmt.Sprintf("i%d", i), tmp, 2)
			if err != nil {
				return fail(err)
			}
			if !add(s, nil, gen.Drops(r, len(s.X.Docs), -1)) {
				return m
			}
		}
	}
	return m
}

func pickDrop(r *rand.Rand, ds ...*roaring.Bitmap) *roaring.Bitmap { return ds[r.Intn(len(ds))] }

func hashParts(parts []interface{}) uint64 {
	return hashAny(parts...)
}

// boundarySurvivors chooses, per input, documents for the terms s1023/s1024/s1025/s2048 such that exactly that many
// of each term's documents SURVIVE the given deletions, plus up to three deleted documents per input.
func boundarySurvivors(r *rand.Rand, sizes []int, drops []*roaring.Bitmap) []map[string][]int {
	out := make([]map[string][]int, len(sizes))
	var alive, dead [][]int
	total := 0
	for i, n := range sizes {
		out[i] = map[string][]int{}
		var a, d []int
		for doc := 0; doc < n; doc++ {
			if drops[i] != nil && drops[i].Contains(uint32(doc)) {
				d = append(d, doc)
			} else {
				a = append(a, doc)
			}
		}
		alive, dead = append(alive, a), append(dead, d)
		total += len(a)
	}
	for _, target := range []int{1023, 1024, 1025, 2048} {
		if total < target {
			continue
		}
		name := fmt.Sprintf("s%d", target)
		left := target
		for i := range sizes {
			rest := 0
			for _, a := range alive[i+1:] {
				rest += len(a)
			}
			lo, hi := left-rest, left
			if lo < 0 {
				lo = 0
			}
			if hi > len(alive[i]) {
				hi = len(alive[i])
			}
			k := lo
			if hi > lo {
				k = lo + r.Intn(hi-lo+1)
			}
			perm := r.Perm(len(alive[i]))[:k]
			for _, p := range perm {
				out[i][name] = append(out[i][name], alive[i][p])
			}
			left -= k
			for j := 0; j < 3 && j < len(dead[i]); j++ {
				out[i][name] = append(out[i][name], dead[i][r.Intn(len(dead[i]))])
			}
			out[i][name] = dedupInts(out[i][name])
		}
	}
	return out
}

func dedupInts(xs []int) []int {
	seen := map[int]bool{}
	var out []int
	for _, x := range xs {
		if !seen[x] {
			seen[x] = true
			out = append(out, x)
		}
	}
	return out
}
