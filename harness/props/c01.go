package props

import (
	"fmt"

	"verif/harness/gen"
	"verif/harness/model"
	"verif/harness/runner"
)

// C01 — a built segment returns exactly the postings its documents imply.
// Oracle: canonical observation through the public API == dump of the
// independent specification model (postings section + field list).

func c01Case(c *runner.Ctx) (docs []*model.MDoc, mode uint32, shape string) {
	r := c.R
	thorough := c.Tier == "thorough"
	switch {
	case c.Idx == 0:
		return nil, 1025, "empty-batch"
	case c.Idx == 1:
		sch := gen.GenSchema(r)
		return gen.GenBatch(r, sch, 1, "one", gen.DocOpts{Repeat: true}), 1025, "single-doc"
	case c.Idx == 2 || c.Idx == 3:
		sch := gen.GenSchema(r)
		return gen.GenBatch(r, sch, 126+c.Idx, "blk", gen.DocOpts{Repeat: true}), gen.SmallModes[r.Intn(len(gen.SmallModes))], "block-edge"
	case c.Idx%400 == 6: // more than 128 fields: two-byte field ids in locations
		sch := gen.WideSchema(r, 140+r.Intn(200))
		n := 60 + r.Intn(200)
		return gen.WideBatch(r, sch, n, fmt.Sprintf("w%d", c.Idx)), gen.Mode(r, n), "wide"
	case c.Idx%400 == 8: // one document carries a term with more than 65535 locations (and one with a frequency beyond 65535); later documents carry the same terms
		sch := gen.GenSchema(r)
		docs := gen.GenBatch(r, sch, 3+r.Intn(4), fmt.Sprintf("L%d", c.Idx), gen.DocOpts{Repeat: true})
		at := r.Intn(len(docs) - 1)
		nl := 65536 + r.Intn(300)
		for i := at; i < len(docs); i++ {
			n := 1 + r.Intn(3)
			if i == at {
				n = nl
			}
			mt := &model.MTerm{T: []byte("many"), F: n}
			for q := 0; q < n; q++ {
				mt.L = append(mt.L, &model.MLoc{P: i*7 + q + 1, S: q * 2, E: q*2 + 1 + i})
			}
			heavy := &model.MTerm{T: []byte("heavy"), F: 1 + i}
			if i == at {
				heavy.F = 65536 + r.Intn(70000)
			}
			docs[i].Fields = append(docs[i].Fields, &model.MField{N: "manyloc", Terms: []*model.MTerm{mt, heavy}})
		}
		return docs, []uint32{1025, 1024, 3}[r.Intn(3)], "many-locations"
	case c.Idx%400 == 10 || c.Idx%400 == 11: // field instances that report a length but carry no term, in some documents
		sch := gen.GenSchema(r)
		n := 2 + r.Intn(30)
		docs := gen.GenBatch(r, sch, n, fmt.Sprintf("E%d", c.Idx), gen.DocOpts{Repeat: c.Idx%2 == 0})
		for _, d := range docs {
			if r.Intn(2) == 0 {
				fs := sch.Fields[r.Intn(len(sch.Fields))]
				d.Fields = append(d.Fields, &model.MField{N: fs.Name, DV: fs.DV, Len: 1 + r.Intn(9)})
			}
		}
		return docs, gen.Mode(r, n), "length-without-terms"
	case c.Idx%400 == 9: // field names of >= 128 bytes
		sch := gen.GenSchema(r)
		sch.LongNames()
		n := 2 + r.Intn(40)
		return gen.GenBatch(r, sch, n, fmt.Sprintf("N%d", c.Idx), gen.DocOpts{Repeat: true}), gen.Mode(r, n), "long-names"
	case thorough && c.Idx%40000 == 7: // document numbers beyond 65535 (second roaring container)
		docs, _ := gen.JumboBatch(r, 66000+r.Intn(3000), fmt.Sprintf("h%d", c.Idx))
		return docs, []uint32{1025, 1024}[r.Intn(2)], "huge"
	case c.Idx%400 == 4 || c.Idx%400 == 5:
		n := gen.JumboSize(r, 1000, 2100)
		if thorough && c.Idx%800 == 4 {
			n = 4000 + r.Intn(1200)
		}
		docs, _ := gen.JumboBatch(r, n, fmt.Sprintf("j%d", c.Idx))
		gen.AddExactTerms(r, docs, "exact", gen.ExactSpec(n)) // cardinalities at/around the 1024 chunking constant
		mode := uint32(1025)
		if c.Idx%2 == 1 {
			mode = []uint32{1024, 100, 64}[r.Intn(3)]
		}
		return docs, mode, "jumbo"
	}
	sch := gen.GenSchema(r)
	n := gen.BatchSize(r)
	docs = gen.GenBatch(r, sch, n, fmt.Sprintf("c%d", c.Idx), gen.DocOpts{Repeat: r.Intn(3) > 0})
	return docs, gen.Mode(r, n), "random"
}

func c01Run(c *runner.Ctx) {
	docs, mode, shape := c01Case(c)
	sg, err := gen.BuildSeg(docs, mode)
	c.Eval(1)
	c.Inc("shape."+shape, 1)
	desc := func() string {
		return fmt.Sprintf("shape=%s docs=%d chunk_mode=%d\ninput=%s", shape, len(docs), mode, clipS(string(docsJSON(docs)), 6000))
	}
	if err != nil {
		c.Violate("build-error:"+errClass(err), "New failed on a valid batch: "+firstLine(err.Error()), err.Error()+"\n"+desc())
		return
	}
	if !compare(c, "built", sg.S, sg.X, model.PostingsOnly, desc) {
		return
	}
	// the segment must keep answering the same after LATER builds (the builder's pooled state is recycled by them)
	if c.Idx%4 == 0 && len(docs) > 0 && len(docs) < 400 {
		other := gen.GenBatch(c.R, gen.GenSchema(c.R), 1+c.R.Intn(20), fmt.Sprintf("o%d", c.Idx), gen.DocOpts{Repeat: true})
		if _, err := gen.BuildSeg(other, gen.Mode(c.R, 20)); err == nil {
			c.Inc("reobserved_after_a_later_build", 1)
			if !compare(c, "built-then-another-build", sg.S, sg.X, model.PostingsOnly, desc) {
				return
			}
		}
	}
	// numbering: Count == batch size
	if int(sg.S.Count()) != len(docs) {
		c.Violate("count", fmt.Sprintf("Count()=%d for a batch of %d", sg.S.Count(), len(docs)), desc())
	}
	tr := traits(docs)
	ci := chunkStats(sg)
	c.Max("max_chunks_per_list", int64(ci.MaxChunks))
	c.Inc("lists", int64(ci.Lists))
	c.Inc("lists_multi_chunk", int64(ci.MultiChunk))
	c.Inc("lists_over_1024_docs", int64(ci.Over1024))
	if tr.RepeatedField {
		c.Inc("batches_repeated_field", 1)
	}
	if tr.RepeatedTerm {
		c.Inc("batches_repeated_term", 1)
	}
	if tr.ForeignLoc {
		c.Inc("batches_foreign_location", 1)
	}
	if tr.ForeignLoc && (tr.RepeatedField || tr.RepeatedTerm) {
		c.Inc("batches_foreign_location_and_repeat", 1)
	}
	if tr.EmptyTerm {
		c.Inc("batches_empty_term", 1)
	}
	if tr.BinaryTerm {
		c.Inc("batches_binary_term", 1)
	}
	c.Inc(fmt.Sprintf("mode.%d", mode), 1)
	if len(docs) >= 2 && (ci.MultiChunk > 0 || tr.RepeatedField || tr.RepeatedTerm || tr.ForeignLoc) {
		c.Nontrivial(runner.Hash(docsJSON(docs), mode), 1)
	}
	if c.WantSample() && len(docs) > 0 && len(docs) < 20 {
		c.Sample(describeBatch(docs, mode))
	}
}

func clipS(s string, n int) string {
	if len(s) > n {
		return s[:n] + "…"
	}
	return s
}

func init() {
	register(&runner.Property{
		ID:    "C01",
		Level: "exploration",
		Rule: "cases = PRNG batches (sizes 0..350, block edges 127..257, forced: empty batch, single doc, 128/129 docs, jumbo 2200-5200-doc batches) x chunk mode in {1,2,3,5,7,64,100,1024,1025}; " +
			"a case is non-trivial when the batch has >=2 documents and (a postings list spanning >=2 chunks, measured with the VerifPostingsInfo hook, or a repeated field/term, or a location naming another field); distinct = hash of (documents JSON, chunk mode)",
		Assumptions: InputContract,
		Phases: []runner.Phase{{
			Name:  "model",
			Cases: cases(15000, 400000),
			Run:   c01Run,
		}},
		Floors: func(tier string) map[string]int64 {
			return map[string]int64{"lists_over_1024_docs": 1, "lists_multi_chunk": 50, "batches_foreign_location_and_repeat": 5, "shape.empty-batch": 1}
		},
	})
}
