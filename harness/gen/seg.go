package gen

import (
	"bytes"
	"fmt"
	"os"
	"path/filepath"

	"github.com/RoaringBitmap/roaring"
	segment "github.com/blugelabs/bluge_segment_api"
	ice "github.com/blugelabs/ice/v2"

	"verif/harness/model"
	"verif/harness/runner"
)

// Seg is a real ice segment together with its expected model.
type Seg struct {
	S     segment.Segment
	X     *model.XSeg
	Mode  uint32
	Kind  string // built | merged | loaded-mem | loaded-file
	Bytes []byte // persisted image when known (merged segments, loaded segments)
	Docs  []*model.MDoc
	file  *os.File
}

func (s *Seg) Close() {
	if s.file != nil {
		s.file.Close()
		os.Remove(s.file.Name())
		s.file = nil
	}
}

// BuildSeg builds a segment with the verif-tagged chunk-mode hook (mode 1025
// is what the public New uses) and its model. Panics inside ice are returned
// as errors.
func BuildSeg(docs []*model.MDoc, mode uint32) (sg *Seg, err error) {
	sdocs := model.ToSegDocs(docs)
	x := model.Build(docs, model.NormCalc)
	var s segment.Segment
	panicked, msg, stack := runner.Try(func() {
		if mode == 0 {
			s, _, err = ice.New(sdocs, model.NormCalc)
		} else {
			s, _, err = ice.VerifNew(sdocs, model.NormCalc, mode)
		}
	})
	if panicked {
		return nil, fmt.Errorf("panic in New: %s\n%s", msg, stack)
	}
	if err != nil {
		return nil, err
	}
	m := mode
	if m == 0 {
		m = 1025
	}
	return &Seg{S: s, X: x, Mode: m, Kind: "built", Docs: docs}, nil
}

// MergeBytes merges and returns the output bytes and the reported map.
func MergeBytes(segs []*Seg, drops []*roaring.Bitmap, mode uint32) (out []byte, nums [][]uint64, n uint64, err error) {
	ss := make([]segment.Segment, len(segs))
	for i, s := range segs {
		ss[i] = s.S
	}
	var buf bytes.Buffer
	panicked, msg, stack := runner.Try(func() {
		if mode == 0 {
			m := ice.Merge(ss, drops, 0)
			var n64 int64
			n64, err = m.WriteTo(&buf, nil)
			n = uint64(n64)
			nums = m.DocumentNumbers()
		} else {
			nums, n, err = ice.VerifMerge(ss, drops, &buf, mode, nil)
		}
	})
	if panicked {
		return nil, nil, 0, fmt.Errorf("panic in merge: %s\n%s", msg, stack)
	}
	if err != nil {
		return nil, nil, 0, err
	}
	return buf.Bytes(), nums, n, nil
}

// MergeSegs merges, loads the result from an exact-length memory image and
// attaches the model of the merge.
func MergeSegs(segs []*Seg, drops []*roaring.Bitmap, mode uint32) (*Seg, [][]uint64, error) {
	b, nums, _, err := MergeBytes(segs, drops, mode)
	if err != nil {
		return nil, nil, err
	}
	xs := make([]*model.XSeg, len(segs))
	for i, s := range segs {
		xs[i] = s.X
	}
	x, _ := model.Merge(xs, drops)
	s, err := LoadMem(b)
	if err != nil {
		return nil, nums, fmt.Errorf("load of merge output: %w", err)
	}
	m := mode
	if m == 0 {
		m = 1025
	}
	return &Seg{S: s, X: x, Mode: m, Kind: "merged", Bytes: b}, nums, nil
}

// Persist calls WriteTo and checks nothing; returns bytes, n, err.
func Persist(s segment.Segment) (b []byte, n int64, err error) {
	var buf bytes.Buffer
	panicked, msg, stack := runner.Try(func() {
		n, err = s.WriteTo(&buf, nil)
	})
	if panicked {
		return nil, 0, fmt.Errorf("panic in WriteTo: %s\n%s", msg, stack)
	}
	return buf.Bytes(), n, err
}

// LoadMem loads from an exact-length copy (cap == len), so a read past the
// end of the image cannot hide in spare capacity.
func LoadMem(b []byte) (s segment.Segment, err error) {
	cp := make([]byte, len(b))
	copy(cp, b)
	cp = cp[:len(cp):len(cp)]
	panicked, msg, stack := runner.Try(func() {
		s, err = ice.Load(segment.NewDataBytes(cp))
	})
	if panicked {
		return nil, fmt.Errorf("panic in Load: %s\n%s", msg, stack)
	}
	if err != nil {
		return nil, err // note: ice.Load returns a typed-nil interface on error
	}
	return s, nil
}

var fileSeq int

// LoadFile writes the image to a file in dir and loads it file-backed.
func LoadFile(dir string, b []byte) (s segment.Segment, f *os.File, err error) {
	fileSeq++
	path := filepath.Join(dir, fmt.Sprintf("seg-%d-%d.ice", os.Getpid(), fileSeq))
	if err = os.WriteFile(path, b, 0o644); err != nil {
		return nil, nil, err
	}
	f, err = os.Open(path)
	if err != nil {
		return nil, nil, err
	}
	var data *segment.Data
	data, err = segment.NewDataFile(f)
	if err != nil {
		f.Close()
		return nil, nil, err
	}
	panicked, msg, stack := runner.Try(func() {
		s, err = ice.Load(data)
	})
	if panicked {
		err = fmt.Errorf("panic in Load: %s\n%s", msg, stack)
	}
	if err != nil {
		f.Close()
		os.Remove(path)
		return nil, nil, err
	}
	return s, f, nil
}

// Reload returns a loaded (memory or file) twin of a segment with the same model.
func (s *Seg) Reload(dir string, file bool) (*Seg, error) {
	b := s.Bytes
	if b == nil {
		var err error
		var n int64
		b, n, err = Persist(s.S)
		if err != nil {
			return nil, err
		}
		if int(n) != len(b) {
			return nil, fmt.Errorf("WriteTo returned n=%d but wrote %d bytes", n, len(b))
		}
	}
	if file {
		ls, f, err := LoadFile(dir, b)
		if err != nil {
			return nil, err
		}
		return &Seg{S: ls, X: s.X, Mode: s.Mode, Kind: "loaded-file", Bytes: b, file: f}, nil
	}
	ls, err := LoadMem(b)
	if err != nil {
		return nil, err
	}
	return &Seg{S: ls, X: s.X, Mode: s.Mode, Kind: "loaded-mem", Bytes: b}, nil
}
