// Package gen holds the seeded generators (schemas, documents, batches,
// deletion bitmaps) and the helpers that build, merge, persist and load real
// ice segments together with their expected models.
package gen

import (
	"fmt"
	"math/rand"
	"sort"
	"strings"

	"github.com/RoaringBitmap/roaring"

	"verif/harness/model"
)

type FieldSpec struct {
	Name      string
	DV        bool // doc values: constant per field name across a workload (input contract)
	Locs      bool
	Composite bool // locations may name other fields
	Vocab     []string
	Unique    bool // adds a unique-per-document term (freq 1, no locations): 1-hit candidate after merges
	StoreP    int  // out of 10
}

type Schema struct {
	Fields []FieldSpec
	IDP    int // probability (out of 10) that a document carries _id
	IDDV   bool
}

var namePool = []string{"a", "b", "body", "c_dv", "tags", "z", "all", "m\x00n", "title", "Z", "_x", "é", "aa"}

// GenSchema draws 1..6 fields.
func GenSchema(r *rand.Rand) *Schema {
	n := 1 + r.Intn(6)
	pool := append([]string(nil), namePool...)
	r.Shuffle(len(pool), func(i, j int) { pool[i], pool[j] = pool[j], pool[i] })
	s := &Schema{IDP: 9, IDDV: r.Intn(4) == 0}
	if r.Intn(8) == 0 {
		s.IDP = 5
	}
	for i := 0; i < n; i++ {
		f := FieldSpec{Name: pool[i], DV: r.Intn(2) == 0, Locs: r.Intn(3) > 0, Composite: r.Intn(4) == 0,
			Unique: r.Intn(4) == 0, StoreP: []int{0, 3, 5, 10}[r.Intn(4)]}
		nv := 1 + r.Intn(7)
		for j := 0; j < nv; j++ {
			switch r.Intn(9) {
			case 0:
				f.Vocab = append(f.Vocab, "")
			case 1:
				b := []byte{byte(r.Intn(256)), byte(r.Intn(256))}
				if f.DV { // terms of doc-value fields contain no 0xff (input contract)
					for k := range b {
						if b[k] == 0xff {
							b[k] = 0xfe
						}
					}
				}
				f.Vocab = append(f.Vocab, string(b))
			case 2:
				f.Vocab = append(f.Vocab, fmt.Sprintf("t%d", r.Intn(4))+strings.Repeat("x", r.Intn(20)))
			default:
				f.Vocab = append(f.Vocab, fmt.Sprintf("t%d", r.Intn(8)))
			}
		}
		s.Fields = append(s.Fields, f)
	}
	return s
}

// Sub returns a schema over a non-empty random subset of the fields (same
// per-field specs, so per-name doc-value flags stay constant).
func (s *Schema) Sub(r *rand.Rand) *Schema {
	out := &Schema{IDP: s.IDP, IDDV: s.IDDV}
	for _, f := range s.Fields {
		if r.Intn(3) > 0 {
			out.Fields = append(out.Fields, f)
		}
	}
	if len(out.Fields) == 0 {
		out.Fields = append(out.Fields, s.Fields[r.Intn(len(s.Fields))])
	}
	return out
}

// LongNames renames the fields to names of 128, 129, 200 and 300 bytes (the uvarint holding a field name's
// length in the persisted field table needs a second byte from 128 on). Sorted order of the names is kept.
func (s *Schema) LongNames() {
	pads := []int{128, 129, 200, 300}
	for i := range s.Fields {
		n := s.Fields[i].Name
		if w := pads[i%len(pads)]; len(n) < w {
			s.Fields[i].Name = n + strings.Repeat("~", w-len(n))
		}
	}
}

func (s *Schema) Names() []string {
	var out []string
	for _, f := range s.Fields {
		out = append(out, f.Name)
	}
	return out
}

type DocOpts struct {
	Repeat    bool // allow repeated field names within a document
	Small     bool // at most one field instance with one term (jumbo batches)
	BigStored bool // stored values of 6-20 KiB: a 128-document stored block exceeds 1 MiB uncompressed
}

var storedShapes = []int{0, 0, 1, 2, 3, 5, 8, 12, 40, 300}

// GenDoc draws one document.
func GenDoc(r *rand.Rand, sch *Schema, id string, o DocOpts) *model.MDoc {
	d := &model.MDoc{}
	if r.Intn(10) < sch.IDP {
		f := &model.MField{N: "_id", Terms: []*model.MTerm{{T: []byte(id), F: 1}}, DV: sch.IDDV}
		if r.Intn(4) > 0 {
			f.St = true
			f.V = []byte(id)
		}
		d.Fields = append(d.Fields, f)
	}
	if r.Intn(40) == 0 {
		return d // a document with (almost) nothing
	}
	names := append([]string{"_id"}, sch.Names()...)
	for _, s := range sch.Fields {
		reps := 1
		switch r.Intn(6) {
		case 0:
			reps = 0
		case 1:
			if o.Repeat {
				reps = 2 + r.Intn(2)
			}
		}
		if o.Small && r.Intn(3) > 0 {
			reps = 0
		}
		for k := 0; k < reps; k++ {
			f := &model.MField{N: s.Name, DV: s.DV, St: r.Intn(10) < s.StoreP}
			if f.St {
				n := storedShapes[r.Intn(len(storedShapes))]
				f.V = []byte(strings.Repeat("v", n))
				if o.BigStored && r.Intn(2) == 0 {
					f.V = make([]byte, 6000+r.Intn(14000)) // poorly compressible
					r.Read(f.V)
				}
				if r.Intn(3) == 0 {
					f.V = append(f.V, []byte(id)...)
				}
			}
			nt := r.Intn(5)
			if o.Small {
				nt = 1
			}
			used := map[string]bool{}
			pos := 1
			for j := 0; j < nt; j++ {
				t := s.Vocab[r.Intn(len(s.Vocab))]
				if used[t] && r.Intn(3) > 0 { // repeated terms within one field instance are rare but present
					continue
				}
				used[t] = true
				mt := &model.MTerm{T: []byte(t), F: 1 + r.Intn(3)}
				if r.Intn(60) == 0 {
					mt.F = boundaryInt(r, 20000) // frequencies around the varint size steps
					if mt.F < 1 {
						mt.F = 1
					}
				}
				if s.Locs && r.Intn(4) > 0 {
					nl := 1 + r.Intn(min(mt.F, 3))
					for q := 0; q < nl; q++ {
						lf := ""
						if s.Composite && r.Intn(2) == 0 {
							lf = names[r.Intn(len(names))]
						}
						l := &model.MLoc{F: lf, P: pos, S: pos * 3, E: pos*3 + 2 + r.Intn(300)}
						if r.Intn(25) == 0 { // positions / offsets exactly at the varint size steps (127|128, 16383|16384, …)
							l.P, l.S, l.E = boundaryInt(r, 1<<31-1), boundaryInt(r, 1<<31-1), boundaryInt(r, 1<<31-1)
						}
						mt.L = append(mt.L, l)
						pos++
					}
				}
				f.Terms = append(f.Terms, mt)
			}
			if s.Unique && k == 0 && r.Intn(2) == 0 {
				f.Terms = append(f.Terms, &model.MTerm{T: []byte("u-" + id), F: 1})
			}
			d.Fields = append(d.Fields, f)
		}
	}
	r.Shuffle(len(d.Fields), func(i, j int) { d.Fields[i], d.Fields[j] = d.Fields[j], d.Fields[i] })
	return d
}

var boundaries = []int{0, 1, 127, 128, 129, 255, 256, 16383, 16384, 16385, 16511, 16512, 2097151, 2097152, 268435455, 268435456, 1<<31 - 1}

func boundaryInt(r *rand.Rand, max int) int {
	for {
		v := boundaries[r.Intn(len(boundaries))]
		if v <= max {
			return v
		}
	}
}

// WideSchema has nf fields f000.. so that field ids above 127 occur (two-byte
// varints for the field id of a location) and locations name far-away fields.
func WideSchema(r *rand.Rand, nf int) *Schema {
	s := &Schema{IDP: 9}
	for i := 0; i < nf; i++ {
		s.Fields = append(s.Fields, FieldSpec{Name: fmt.Sprintf("f%03d", i), DV: i%3 == 0, Locs: true, Composite: true,
			Vocab: []string{"t0", "t1", fmt.Sprintf("w%d", i%5)}, StoreP: 2, Unique: i%7 == 0})
	}
	return s
}

// WideBatch draws documents that each carry a handful of the wide schema's fields.
func WideBatch(r *rand.Rand, sch *Schema, n int, prefix string) []*model.MDoc {
	docs := make([]*model.MDoc, n)
	for i := range docs {
		sub := &Schema{IDP: sch.IDP}
		for k := 0; k < 2+r.Intn(6); k++ {
			sub.Fields = append(sub.Fields, sch.Fields[r.Intn(len(sch.Fields))])
		}
		// locations may name any field of the wide schema that the batch carries (ToSegDocs blanks the others)
		d := GenDoc(r, sub, fmt.Sprintf("%s-%d", prefix, i), DocOpts{Repeat: true})
		for _, f := range d.Fields {
			for _, t := range f.Terms {
				for _, l := range t.L {
					if l.F != "" && r.Intn(2) == 0 {
						l.F = sch.Fields[r.Intn(len(sch.Fields))].Name
					}
				}
			}
		}
		docs[i] = d
	}
	return docs
}

// GenBatch draws n documents with ids prefix-0 … prefix-(n-1).
func GenBatch(r *rand.Rand, sch *Schema, n int, prefix string, o DocOpts) []*model.MDoc {
	docs := make([]*model.MDoc, n)
	for i := range docs {
		docs[i] = GenDoc(r, sch, fmt.Sprintf("%s-%d", prefix, i), o)
	}
	return docs
}

// BatchSize draws a batch size: mostly small, sometimes at the edges of the
// 128-document stored block, rarely a few hundred.
func BatchSize(r *rand.Rand) int {
	switch x := r.Intn(100); {
	case x < 3:
		return 0
	case x < 8:
		return 1
	case x < 70:
		return 2 + r.Intn(11)
	case x < 85:
		return 13 + r.Intn(50)
	case x < 93:
		return []int{127, 128, 129, 130, 255, 256, 257}[r.Intn(7)]
	default:
		return 100 + r.Intn(250)
	}
}

var SmallModes = []uint32{1, 2, 3, 5, 7, 64, 1024, 1025}

// Mode draws a chunk mode suitable for a batch of n documents (tiny fixed
// chunk sizes only on small batches: the chunk table has n/size entries per term).
func Mode(r *rand.Rand, n int) uint32 {
	if n > 400 {
		if r.Intn(6) == 0 {
			return uint32(40 + r.Intn(985)) // any fixed size 40..1024
		}
		return []uint32{64, 100, 1024, 1025, 1025}[r.Intn(5)]
	}
	if r.Intn(6) == 0 {
		return uint32(1 + r.Intn(1024)) // any fixed size 1..1024
	}
	return SmallModes[r.Intn(len(SmallModes))]
}

// Drops draws a deletion bitmap for a segment of n documents. pattern -1
// draws the pattern too. Bitmaps with long runs are run-optimisable, which
// makes an in-place RunOptimize by the library visible to the C15 monitor.
func Drops(r *rand.Rand, n int, pattern int) *roaring.Bitmap {
	if pattern < 0 {
		pattern = r.Intn(7)
	}
	switch pattern {
	case 0:
		return nil
	case 1:
		return roaring.New()
	case 2: // random third
		bm := roaring.New()
		for i := 0; i < n; i++ {
			if r.Intn(3) == 0 {
				bm.Add(uint32(i))
			}
		}
		return bm
	case 3: // all but few
		bm := roaring.New()
		for i := 0; i < n; i++ {
			if r.Intn(8) != 0 {
				bm.Add(uint32(i))
			}
		}
		return bm
	case 4: // everything
		// (individual Adds: the run stays in an array/bitmap container, AddRange would create a run container)
		bm := roaring.New()
		for i := 0; i < n; i++ {
			bm.Add(uint32(i))
		}
		return bm
	case 5: // one long run
		bm := roaring.New()
		if n > 0 {
			a := r.Intn(n)
			b := a + 1 + r.Intn(n-a)
			for i := a; i < b; i++ {
				bm.Add(uint32(i))
			}
		}
		return bm
	default: // a single document
		bm := roaring.New()
		if n > 0 {
			bm.Add(uint32(r.Intn(n)))
		}
		return bm
	}
}

// JumboSize draws a jumbo batch size; a third of the time exactly at a chunking boundary.
func JumboSize(r *rand.Rand, lo, span int) int {
	if r.Intn(3) == 0 {
		var fit []int
		for _, k := range []int{1023, 1024, 1025, 2047, 2048, 2049, 3072} {
			if k >= lo && k <= lo+span+1100 {
				fit = append(fit, k)
			}
		}
		if len(fit) > 0 {
			return fit[r.Intn(len(fit))]
		}
	}
	return lo + r.Intn(span)
}

// JumboBatch draws n small documents over a tiny vocabulary so that some term
// occurs in more than 1024 documents (adaptive chunking then uses >= 2 chunks
// and doc values cross the 1024-document chunk).
func JumboBatch(r *rand.Rand, n int, prefix string, tagDV ...bool) ([]*model.MDoc, *Schema) {
	tdv := r.Intn(2) == 0
	if len(tagDV) > 0 {
		tdv = tagDV[0]
	}
	sch := &Schema{IDP: 10, Fields: []FieldSpec{
		{Name: "body", DV: true, Locs: true, Vocab: []string{"common", "often", "rare0", "rare1", "rare2"}, StoreP: 3},
		{Name: "tag", DV: tdv, Locs: false, Vocab: []string{"x", "y"}, Unique: true, StoreP: 0},
	}}
	docs := make([]*model.MDoc, n)
	// "sparse": a doc-value field present only in [0,sa) and [sb,n): with n > 2200 the
	// 1024-document doc-value chunk in between stays empty (an empty chunk after a populated one)
	sa, sb := 200+r.Intn(800), n
	if n > 2200 {
		sb = 2060 + r.Intn(n-2100)
	}
	for i := range docs {
		id := fmt.Sprintf("%s-%d", prefix, i)
		d := &model.MDoc{}
		d.Fields = append(d.Fields, &model.MField{N: "_id", Terms: []*model.MTerm{{T: []byte(id), F: 1}}, St: r.Intn(3) == 0, V: []byte(id)})
		if (i < sa || i >= sb) && r.Intn(4) > 0 {
			d.Fields = append(d.Fields, &model.MField{N: "sparse", DV: true, Terms: []*model.MTerm{{T: []byte(fmt.Sprintf("s%d", i%7)), F: 1}}})
		}
		if r.Intn(4) > 0 { // "rnd": a large dictionary of poorly compressible terms (the field's FST exceeds several KiB)
			t := make([]byte, 5)
			r.Read(t)
			d.Fields = append(d.Fields, &model.MField{N: "rnd", Terms: []*model.MTerm{{T: t, F: 1}}})
		}
		if i < sa/3 && r.Intn(3) > 0 { // "head": doc values only at the very beginning (every later 1024-document chunk, incl. the last, is empty)
			d.Fields = append(d.Fields, &model.MField{N: "head", DV: true, Terms: []*model.MTerm{{T: []byte(fmt.Sprintf("h%d", i%5)), F: 1}}})
		}
		body := &model.MField{N: "body", DV: true, St: r.Intn(10) < 3}
		if body.St {
			body.V = []byte(strings.Repeat("s", r.Intn(6)))
		}
		pos := 1
		if r.Intn(10) < 8 {
			mt := &model.MTerm{T: []byte("common"), F: 1 + r.Intn(2)}
			// locations only in the second half of the batch: the first posting chunk(s) of "common" have an
			// EMPTY location chunk, later ones a populated one
			if i >= n/2 && r.Intn(3) == 0 {
				mt.L = append(mt.L, &model.MLoc{P: pos, S: pos, E: pos + 6})
				pos++
			}
			body.Terms = append(body.Terms, mt)
		}
		if r.Intn(10) < 4 {
			body.Terms = append(body.Terms, &model.MTerm{T: []byte("often"), F: 1})
		}
		if r.Intn(50) == 0 {
			body.Terms = append(body.Terms, &model.MTerm{T: []byte(fmt.Sprintf("rare%d", r.Intn(3))), F: 2, L: []*model.MLoc{{P: pos, S: 9, E: 13}}})
		}
		if r.Intn(20) > 0 {
			d.Fields = append(d.Fields, body)
		}
		if r.Intn(3) == 0 {
			tag := &model.MField{N: "tag", DV: sch.Fields[1].DV, Terms: []*model.MTerm{{T: []byte(sch.Fields[1].Vocab[r.Intn(2)]), F: 1}}}
			if r.Intn(4) == 0 {
				tag.Terms = append(tag.Terms, &model.MTerm{T: []byte("u-" + id), F: 1})
			}
			d.Fields = append(d.Fields, tag)
		}
		docs[i] = d
	}
	return docs, sch
}

// AddExactTerms gives every term of spec exactly spec[term] distinct documents
// (chosen at random) by adding one extra instance of field to those documents.
// Used to hit cardinalities at and around the chunking constants (1023, 1024,
// 1025, 2048 …), which random vocabularies practically never produce.
func AddExactTerms(r *rand.Rand, docs []*model.MDoc, field string, spec map[string]int) {
	per := map[int][]string{}
	names := make([]string, 0, len(spec))
	for t := range spec {
		names = append(names, t)
	}
	sort.Strings(names)
	for _, t := range names {
		k := spec[t]
		if k > len(docs) {
			k = len(docs)
		}
		for _, d := range r.Perm(len(docs))[:k] {
			per[d] = append(per[d], t)
		}
	}
	for d := range docs { // document order: deterministic
		ts := per[d]
		if len(ts) == 0 {
			continue
		}
		f := &model.MField{N: field}
		for _, t := range ts {
			f.Terms = append(f.Terms, &model.MTerm{T: []byte(t), F: 1})
		}
		docs[d].Fields = append(docs[d].Fields, f)
		if r.Intn(25) == 0 {
			// a second instance of the field repeating one of the terms: the number of term INSTANCES then
			// exceeds the number of DOCUMENTS (cardinality) of that term
			docs[d].Fields = append(docs[d].Fields, &model.MField{N: field, Terms: []*model.MTerm{{T: []byte(ts[r.Intn(len(ts))]), F: 1}}})
		}
	}
}

// AddTermDocs adds one instance of field carrying the given terms (frequency 1,
// no locations) to chosen documents: which[term] lists document indices.
func AddTermDocs(docs []*model.MDoc, field string, which map[string][]int) {
	per := map[int][]string{}
	names := make([]string, 0, len(which))
	for t := range which {
		names = append(names, t)
	}
	sort.Strings(names)
	for _, t := range names {
		for _, d := range which[t] {
			per[d] = append(per[d], t)
		}
	}
	for d := range docs {
		if ts := per[d]; len(ts) > 0 {
			f := &model.MField{N: field}
			for _, t := range ts {
				f.Terms = append(f.Terms, &model.MTerm{T: []byte(t), F: 1})
			}
			docs[d].Fields = append(docs[d].Fields, f)
		}
	}
}

// ExactSpec returns the boundary cardinalities that fit into n documents.
func ExactSpec(n int) map[string]int {
	spec := map[string]int{"eall": n} // a term in every document (cardinality == number of documents)
	for _, k := range []int{1023, 1024, 1025, 2047, 2048, 2049, 3072, 4096} {
		if k <= n {
			spec[fmt.Sprintf("e%d", k)] = k
		}
	}
	return spec
}

// SplitExact splits target cardinalities over inputs of the given sizes so that
// a merge WITHOUT deletions yields terms of exactly 1024 / 2048 documents.
func SplitExact(r *rand.Rand, sizes []int) []map[string]int {
	out := make([]map[string]int, len(sizes))
	for i := range out {
		out[i] = map[string]int{}
	}
	total := 0
	for _, s := range sizes {
		total += s
	}
	for _, target := range []int{1024, 2048} {
		if total < target {
			continue
		}
		left := target
		for i, s := range sizes {
			k := left
			if i < len(sizes)-1 {
				rest := 0
				for _, s2 := range sizes[i+1:] {
					rest += s2
				}
				lo := left - rest
				if lo < 0 {
					lo = 0
				}
				hi := left
				if hi > s {
					hi = s
				}
				k = lo
				if hi > lo {
					k = lo + r.Intn(hi-lo+1)
				}
			}
			if k > s {
				k = s
			}
			out[i][fmt.Sprintf("m%d", target)] = k
			left -= k
		}
	}
	return out
}
