package gen

import (
	"fmt"
	"math/rand"

	"github.com/RoaringBitmap/roaring"
)

// World is a set of real segments with their expected models: built, loaded
// from memory, loaded file-backed, merged with every deletion pattern, and
// merges of merges. Reader-side properties draw their operations from it.
type World struct {
	Segs   []*Seg
	Schema *Schema
}

func (w *World) Close() {
	for _, s := range w.Segs {
		s.Close()
	}
}

type WorldOpts struct {
	Jumbo     bool // one >2049-document base segment (doc-value chunks, adaptive chunking)
	JumboN    int  // with Jumbo: exact size of the first base segment, built in the default (adaptive) chunk mode
	MaxDocs   int  // cap for base batch sizes (0 = BatchSize default)
	MinDocs   int
	FixedMode uint32 // 0 = draw per segment
	Bases     int    // number of base segments (0 = 2..3)
	NoFile    bool
}

// GenWorld builds a world. An error means ice failed to build/merge/load
// something (that is C01/C02/C04's business; callers treat it as inconclusive).
func GenWorld(r *rand.Rand, tmp string, prefix string, o WorldOpts) (*World, error) {
	w := &World{Schema: GenSchema(r)}
	if !o.Jumbo && fnv32(prefix)%8 == 0 { // some worlds carry field names of >= 128 bytes
		w.Schema.LongNames()
	}
	nb := o.Bases
	if nb == 0 {
		nb = 2 + r.Intn(2)
	}
	var bases []*Seg
	tagDV := r.Intn(2) == 0
	for i := 0; i < nb; i++ {
		var s *Seg
		var err error
		if o.Jumbo && i == 0 {
			jn := JumboSize(r, 2100, 1200)
			modes := []uint32{1025, 1024, 100}
			if o.JumboN > 0 {
				jn, modes = o.JumboN, []uint32{1025}
			}
			docs, sch := JumboBatch(r, jn, fmt.Sprintf("%s.j%d", prefix, i), tagDV)
			AddExactTerms(r, docs, "exact", ExactSpec(len(docs)))
			w.Schema = sch
			s, err = BuildSeg(docs, modes[r.Intn(len(modes))])
		} else if o.Jumbo {
			docs, _ := JumboBatch(r, JumboSize(r, 300, 900), fmt.Sprintf("%s.j%d", prefix, i), tagDV)
			AddExactTerms(r, docs, "exact", ExactSpec(len(docs)))
			s, err = BuildSeg(docs, []uint32{1025, 1024, 64}[r.Intn(3)])
		} else {
			sch := w.Schema
			if r.Intn(2) == 0 {
				sch = sch.Sub(r)
			}
			n := BatchSize(r)
			if o.MaxDocs > 0 && n > o.MaxDocs {
				n = 1 + r.Intn(o.MaxDocs)
			}
			if n < o.MinDocs {
				n = o.MinDocs + r.Intn(o.MinDocs+1)
			}
			mode := o.FixedMode
			if mode == 0 {
				mode = Mode(r, n)
			}
			s, err = BuildSeg(GenBatch(r, sch, n, fmt.Sprintf("%s.b%d", prefix, i), DocOpts{Repeat: r.Intn(3) > 0}), mode)
		}
		if err != nil {
			return w.partial(), err
		}
		bases = append(bases, s)
		w.Segs = append(w.Segs, s)
	}
	// loaded twins
	for i, b := range bases {
		if r.Intn(2) == 0 || i == 0 {
			t, err := b.Reload(tmp, false)
			if err != nil {
				return w.partial(), err
			}
			w.Segs = append(w.Segs, t)
		}
		if !o.NoFile && (r.Intn(3) == 0 || i == 1) {
			t, err := b.Reload(tmp, true)
			if err != nil {
				return w.partial(), err
			}
			w.Segs = append(w.Segs, t)
		}
	}
	// merges over the bases
	nm := 2 + r.Intn(2)
	var merged []*Seg
	for i := 0; i < nm; i++ {
		k := 1 + r.Intn(len(bases))
		perm := r.Perm(len(bases))[:k]
		var ins []*Seg
		var drops []*roaring.Bitmap
		for _, p := range perm {
			ins = append(ins, bases[p])
			pat := r.Intn(7)
			if pat == 4 && r.Intn(4) > 0 {
				pat = 2
			}
			drops = append(drops, Drops(r, len(bases[p].X.Docs), pat))
		}
		mode := o.FixedMode
		if mode == 0 {
			mode = Mode(r, 500)
			if !o.Jumbo {
				mode = SmallModes[r.Intn(len(SmallModes))]
			}
		}
		ms, _, err := MergeSegs(ins, drops, mode)
		if err != nil {
			return w.partial(), err
		}
		merged = append(merged, ms)
		w.Segs = append(w.Segs, ms)
	}
	// a merge of merges (and a base), with a second wave of deletions
	if len(merged) >= 2 {
		ins := []*Seg{merged[0], merged[1], bases[len(bases)-1]}
		var drops []*roaring.Bitmap
		for _, s := range ins {
			drops = append(drops, Drops(r, len(s.X.Docs), pick(r, 0, 1, 2, 5, 6)))
		}
		mode := o.FixedMode
		if mode == 0 {
			mode = SmallModes[r.Intn(len(SmallModes))]
			if o.Jumbo {
				mode = Mode(r, 500)
			}
		}
		ms, _, err := MergeSegs(ins, drops, mode)
		if err != nil {
			return w.partial(), err
		}
		w.Segs = append(w.Segs, ms)
		if !o.NoFile && r.Intn(2) == 0 {
			t, err := ms.Reload(tmp, true)
			if err != nil {
				return w.partial(), err
			}
			w.Segs = append(w.Segs, t)
		}
	}
	for _, s := range w.Segs {
		s.X.Index() // models are read-only afterwards (safe to share between goroutines)
	}
	return w, nil
}

// partial prepares the segments built so far for use after a later construction step failed: the
// reader-side checks still examine them (their models are complete), while the failure itself is
// reported as a note by the caller (it is C01/C02/C04's business).
func (w *World) partial() *World {
	for _, s := range w.Segs {
		s.X.Index()
	}
	return w
}

func fnv32(s string) uint32 {
	h := uint32(2166136261)
	for i := 0; i < len(s); i++ {
		h = (h ^ uint32(s[i])) * 16777619
	}
	return h
}

func pick(r *rand.Rand, xs ...int) int { return xs[r.Intn(len(xs))] }

// NonEmpty returns the segments that have at least one document.
func (w *World) NonEmpty() []*Seg {
	var out []*Seg
	for _, s := range w.Segs {
		if len(s.X.Docs) > 0 {
			out = append(out, s)
		}
	}
	return out
}
