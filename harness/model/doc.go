// Package model holds the input documents handed to ice (they implement the
// bluge_segment_api Document interfaces) and an independent executable
// specification ("expected segment") of what a segment built or merged from
// them must answer. It shares no code with ice.
package model

import (
	"math"

	segment "github.com/blugelabs/bluge_segment_api"
)

// ---------- input documents (JSON-serialisable)

type MLoc struct {
	F       string `json:"f,omitempty"`
	P, S, E int
}

func (l *MLoc) Field() string { return l.F }
func (l *MLoc) Pos() int      { return l.P }
func (l *MLoc) Start() int    { return l.S }
func (l *MLoc) End() int      { return l.E }
func (l *MLoc) Size() int     { return 0 }

type MTerm struct {
	T []byte  `json:"t"`
	F int     `json:"n"`
	L []*MLoc `json:"l,omitempty"`
}

func (t *MTerm) Term() []byte   { return t.T }
func (t *MTerm) Frequency() int { return t.F }
func (t *MTerm) EachLocation(v segment.VisitLocation) {
	for _, l := range t.L {
		v(l)
	}
}

type MField struct {
	N     string   `json:"name"`
	Terms []*MTerm `json:"terms,omitempty"`
	V     []byte   `json:"v,omitempty"`
	St    bool     `json:"st,omitempty"`
	DV    bool     `json:"dv,omitempty"`
	Len   int      `json:"len,omitempty"` // Length() of an instance WITHOUT terms (used by one C01 shape only)
}

func (f *MField) Name() string { return f.N }

// Length is the sum of the term frequencies of this field instance, as
// Bluge's analyzers guarantee (input contract of C16).
func (f *MField) Length() int {
	if len(f.Terms) == 0 && f.Len > 0 { // a field instance all of whose tokens were dropped by the analyzer but which still reports a length
		return f.Len
	}
	n := 0
	for _, t := range f.Terms {
		n += t.F
	}
	return n
}
func (f *MField) EachTerm(v segment.VisitTerm) {
	for _, t := range f.Terms {
		v(t)
	}
}
func (f *MField) Value() []byte        { return f.V }
func (f *MField) Store() bool          { return f.St }
func (f *MField) Index() bool          { return true }
func (f *MField) IndexDocValues() bool { return f.DV }

type MDoc struct {
	Fields []*MField `json:"fields"`
}

func (d *MDoc) Analyze() {}
func (d *MDoc) Len() int { return len(d.Fields) }
func (d *MDoc) EachField(v segment.VisitField) {
	for _, f := range d.Fields {
		v(f)
	}
}

// NormCalc is the norm function used by every workload: strictly positive,
// finite, depends on field name and total field length.
func NormCalc(field string, l int) float32 {
	return float32(1 / math.Sqrt(float64(l+1+len(field)%3)))
}

// ToSegDocs converts to the API slice type. It also enforces the input
// contract item "a location's field name is empty or names a field of the same
// batch" by blanking names that no document of the batch carries (done on a
// copy-free basis: the generator owns the documents).
func ToSegDocs(docs []*MDoc) []segment.Document {
	present := map[string]bool{}
	for _, d := range docs {
		for _, f := range d.Fields {
			present[f.N] = true
		}
	}
	for _, d := range docs {
		for _, f := range d.Fields {
			for _, t := range f.Terms {
				for _, l := range t.L {
					if l.F != "" && !present[l.F] {
						l.F = ""
					}
				}
			}
		}
	}
	out := make([]segment.Document, len(docs))
	for i, d := range docs {
		out[i] = d
	}
	return out
}
