package model

import (
	"fmt"
	"math"
	"sort"
	"strings"

	"github.com/RoaringBitmap/roaring"
)

// ---------- expected segment (the specification)

type XLoc struct {
	Field     string
	Pos, S, E int
}

type XPosting struct {
	Freq int
	Norm float32
	Locs []XLoc
}

type XStored struct {
	Field string
	Val   string
}

type XDoc struct {
	Terms   map[string]map[string]*XPosting // field -> term -> posting
	Stored  []XStored                       // field-list order, then input order
	DV      map[string][]string             // field -> sorted distinct terms (doc-value fields only)
	Carries map[string]bool                 // field instances present in the input document
	FLen    map[string]int                  // field -> total length in this document
	Tag     string                          // unique marker of the input document (harness bookkeeping only)
}

type XSeg struct {
	Fields []string
	Docs   []*XDoc
	Merged bool

	inv map[string]map[string][]int // lazily built: field -> term -> docs
}

const DocDropped = uint64(math.MaxInt64)

func FieldList(names map[string]bool) []string {
	out := []string{"_id"}
	var rest []string
	for n := range names {
		if n != "_id" {
			rest = append(rest, n)
		}
	}
	sort.Strings(rest)
	return append(out, rest...)
}

// Build is the specification of ice.New.
func Build(docs []*MDoc, normCalc func(string, int) float32) *XSeg {
	names := map[string]bool{}
	dvField := map[string]bool{}
	for _, d := range docs {
		for _, f := range d.Fields {
			names[f.N] = true
			if f.DV {
				dvField[f.N] = true
			}
		}
	}
	x := &XSeg{Fields: FieldList(names)}
	fid := map[string]int{}
	for i, n := range x.Fields {
		fid[n] = i
	}
	for di, d := range docs {
		xd := &XDoc{Terms: map[string]map[string]*XPosting{}, DV: map[string][]string{},
			Carries: map[string]bool{}, FLen: map[string]int{}, Tag: fmt.Sprintf("d%d", di)}
		for _, f := range d.Fields {
			xd.Carries[f.N] = true
			xd.FLen[f.N] += f.Length()
		}
		for _, f := range d.Fields {
			if xd.Terms[f.N] == nil {
				xd.Terms[f.N] = map[string]*XPosting{}
			}
			for _, t := range f.Terms {
				p := xd.Terms[f.N][string(t.T)]
				if p == nil {
					p = &XPosting{Norm: normCalc(f.N, xd.FLen[f.N])}
					xd.Terms[f.N][string(t.T)] = p
				}
				p.Freq += t.F
				for _, l := range t.L {
					lf := l.F
					if lf == "" {
						lf = f.N
					}
					p.Locs = append(p.Locs, XLoc{lf, l.P, l.S, l.E})
				}
			}
		}
		type sv struct {
			fid int
			s   XStored
		}
		var svs []sv
		for _, f := range d.Fields {
			if f.St {
				svs = append(svs, sv{fid[f.N], XStored{f.N, string(f.V)}})
			}
		}
		sort.SliceStable(svs, func(a, b int) bool { return svs[a].fid < svs[b].fid })
		for _, s := range svs {
			xd.Stored = append(xd.Stored, s.s)
		}
		for fn, tm := range xd.Terms {
			if dvField[fn] && len(tm) > 0 {
				ts := make([]string, 0, len(tm))
				for t := range tm {
					ts = append(ts, t)
				}
				sort.Strings(ts)
				xd.DV[fn] = ts
			}
		}
		x.Docs = append(x.Docs, xd)
	}
	return x
}

// Merge is the specification of ice.Merge: survivors in (segment, document)
// order, field list = union of the inputs' field lists. It also returns the
// expected old->new document number map.
func Merge(segs []*XSeg, drops []*roaring.Bitmap) (*XSeg, [][]uint64) {
	names := map[string]bool{}
	out := &XSeg{Merged: true}
	var nums [][]uint64
	var next uint64
	for i, s := range segs {
		for _, f := range s.Fields {
			names[f] = true
		}
		ns := make([]uint64, len(s.Docs))
		for d := range s.Docs {
			if drops[i] != nil && drops[i].Contains(uint32(d)) {
				ns[d] = DocDropped
				continue
			}
			ns[d] = next
			next++
			out.Docs = append(out.Docs, s.Docs[d])
		}
		nums = append(nums, ns)
	}
	out.Fields = FieldList(names)
	// stored values are grouped in the *merged* field-list order
	fid := map[string]int{}
	for i, n := range out.Fields {
		fid[n] = i
	}
	for i, d := range out.Docs {
		sorted := sort.SliceIsSorted(d.Stored, func(a, b int) bool { return fid[d.Stored[a].Field] < fid[d.Stored[b].Field] })
		if !sorted {
			nd := *d
			nd.Stored = append([]XStored(nil), d.Stored...)
			sort.SliceStable(nd.Stored, func(a, b int) bool { return fid[nd.Stored[a].Field] < fid[nd.Stored[b].Field] })
			out.Docs[i] = &nd
		}
	}
	return out, nums
}

// Index builds the inverted index eagerly (call before sharing a model between goroutines).
func (x *XSeg) Index() { x.index() }

func (x *XSeg) index() {
	if x.inv != nil {
		return
	}
	x.inv = map[string]map[string][]int{}
	for _, f := range x.Fields {
		x.inv[f] = map[string][]int{}
	}
	for dn, d := range x.Docs {
		for f, tm := range d.Terms {
			m := x.inv[f]
			if m == nil {
				m = map[string][]int{}
				x.inv[f] = m
			}
			for t := range tm {
				m[t] = append(m[t], dn)
			}
		}
	}
}

// Terms returns the sorted live terms of a field.
func (x *XSeg) Terms(field string) []string {
	x.index()
	m := x.inv[field]
	ts := make([]string, 0, len(m))
	for t := range m {
		ts = append(ts, t)
	}
	sort.Strings(ts)
	return ts
}

// Docs returns the ascending document numbers containing (field, term).
func (x *XSeg) DocsOf(field, term string) []int {
	x.index()
	return x.inv[field][term]
}

func (x *XSeg) HasField(field string) bool {
	for _, f := range x.Fields {
		if f == field {
			return true
		}
	}
	return false
}

type XStats struct{ Total, Docs, SumTTF uint64 }

// Stats is the specification of CollectionStats (C16).
func (x *XSeg) Stats(field string) XStats {
	if !x.HasField(field) {
		return XStats{}
	}
	st := XStats{Total: uint64(len(x.Docs))}
	for _, d := range x.Docs {
		if x.Merged {
			if len(d.Terms[field]) > 0 {
				st.Docs++
			}
		} else if d.Carries[field] {
			st.Docs++
		}
		for _, p := range d.Terms[field] {
			st.SumTTF += uint64(p.Freq)
		}
	}
	return st
}

// ---------- canonical dump

// DumpOpts selects the sections of the canonical text. The zero value selects
// nothing but the header line; use All / PostingsOnly.
type DumpOpts struct {
	Postings bool
	Stored   bool
	DV       bool
	Stats    bool
}

var (
	All          = DumpOpts{Postings: true, Stored: true, DV: true}
	AllStats     = DumpOpts{Postings: true, Stored: true, DV: true, Stats: true}
	PostingsOnly = DumpOpts{Postings: true}
	StatsOnly    = DumpOpts{Stats: true}
)

func FmtPosting(dn uint64, freq int, normBits uint32, locs []XLoc) string {
	return fmt.Sprintf("  d=%d f=%d n=%08x L=%v", dn, freq, normBits, locs)
}

func (x *XSeg) Dump(o DumpOpts) string {
	x.index()
	var b strings.Builder
	fmt.Fprintf(&b, "fields=%q count=%d\n", x.Fields, len(x.Docs))
	for _, f := range x.Fields {
		if o.Stats {
			st := x.Stats(f)
			fmt.Fprintf(&b, "F %q stats total=%d docs=%d ttf=%d\n", f, st.Total, st.Docs, st.SumTTF)
		}
		if !o.Postings {
			continue
		}
		for _, t := range x.Terms(f) {
			docs := x.inv[f][t]
			fmt.Fprintf(&b, "F %q T %q n=%d\n", f, t, len(docs))
			for _, dn := range docs {
				p := x.Docs[dn].Terms[f][t]
				b.WriteString(FmtPosting(uint64(dn), p.Freq, math.Float32bits(p.Norm), p.Locs))
				b.WriteByte('\n')
			}
		}
	}
	for dn, d := range x.Docs {
		if o.Stored {
			fmt.Fprintf(&b, "D %d stored=%q\n", dn, d.Stored)
		}
		for _, f := range x.Fields {
			if o.DV && len(d.DV[f]) > 0 {
				fmt.Fprintf(&b, "D %d dv %q=%q\n", dn, f, d.DV[f])
			}
		}
	}
	return b.String()
}

// FirstDiff describes the first differing line of two dumps with context.
func FirstDiff(exp, got string) string {
	la, lb := strings.Split(exp, "\n"), strings.Split(got, "\n")
	n := len(la)
	if len(lb) < n {
		n = len(lb)
	}
	at := -1
	for i := 0; i < n; i++ {
		if la[i] != lb[i] {
			at = i
			break
		}
	}
	if at < 0 {
		if len(la) == len(lb) {
			return ""
		}
		at = n
	}
	// find the enclosing "F ... T ..." header for context
	hdr := ""
	for j := at; j >= 0 && j < len(la); j-- {
		if strings.HasPrefix(la[j], "F ") || strings.HasPrefix(la[j], "D ") || strings.HasPrefix(la[j], "fields=") {
			hdr = la[j]
			break
		}
	}
	e, g := "<end>", "<end>"
	if at < len(la) {
		e = la[at]
	}
	if at < len(lb) {
		g = lb[at]
	}
	return fmt.Sprintf("line %d (under %s)\n  expected: %s\n  observed: %s", at, clip(hdr, 200), clip(e, 400), clip(g, 400))
}

func clip(s string, n int) string {
	if len(s) > n {
		return s[:n] + "…"
	}
	return s
}
