//go:build verif
// +build verif

package ice

import (
	"fmt"
	"io"

	"github.com/RoaringBitmap/roaring"
	segment "github.com/blugelabs/bluge_segment_api"
)

// This file is only compiled with the "verif" build tag. It exports a few
// entry points and probes for the external runtime-verification harness and
// does not change the behaviour of any existing function.

// VerifNew builds a segment with an explicit chunk mode (the public New
// always uses the default mode).
func VerifNew(results []segment.Document, normCalc func(string, int) float32,
	chunkMode uint32) (segment.Segment, uint64, error) {
	return newWithChunkMode(results, normCalc, chunkMode)
}

// VerifMerge merges with an explicit output chunk mode, writing straight to w.
func VerifMerge(segments []segment.Segment, drops []*roaring.Bitmap, w io.Writer,
	chunkMode uint32, closeCh chan struct{}) ([][]uint64, uint64, error) {
	segmentBases := make([]*Segment, len(segments))
	for i, seg := range segments {
		sb, ok := seg.(*Segment)
		if !ok {
			return nil, 0, fmt.Errorf("unexpected segment type: %T", seg)
		}
		segmentBases[i] = sb
	}
	return mergeSegmentBasesWriter(segmentBases, drops, w, chunkMode, closeCh)
}

// VerifPostingsInfo reports how a postings list is encoded (coverage
// accounting only).
func VerifPostingsInfo(pl segment.PostingsList) (is1Hit bool, chunkSize, cardinality uint64) {
	p, ok := pl.(*PostingsList)
	if !ok || p == nil {
		return false, 0, 0
	}
	if p.normBits1Hit != 0 {
		return true, 0, 1
	}
	if p.postings != nil {
		cardinality = p.postings.GetCardinality()
	}
	return false, p.chunkSize, cardinality
}

// VerifPoolProbe takes a builder state from the pool, reports whether it has
// been used by an earlier build, and puts it back.
func VerifPoolProbe() bool {
	s := interimPool.Get().(*interim)
	used := s.lastNumDocs > 0 || s.builder != nil || cap(s.tmp0) > 0 || cap(s.Postings) > 0
	interimPool.Put(s)
	return used
}

// VerifSegmentMutexFree reports whether the segment's mutex is currently
// not held (to be called at quiescent points only).
func VerifSegmentMutexFree(seg segment.Segment) bool {
	s, ok := seg.(*Segment)
	if !ok || s == nil {
		return true
	}
	if s.m.TryLock() {
		s.m.Unlock()
		return true
	}
	return false
}
