#!/usr/bin/env python3
"""Prints the markdown tables used in DESIGN.md section 5 from mutants/RESULTS.json and seeded/*/meta.json."""
import json, glob, os
print("#### Mutants (mutants/RESULTS.json)\n")
print("| mutant | targets | result |")
print("|---|---|---|")
for r in json.load(open("/verif/mutants/RESULTS.json")):
    if r["status"] != "valid":
        print(f"| {r['name']} | {', '.join(r['targets'])} | {r['status']} |"); continue
    res = ", ".join(f"{p}: {'VIOLATION' if c['violation'] else ('inconclusive' if c['exit']==2 else 'silent')}" for p, c in r["checks"].items())
    print(f"| {r['name']} | {', '.join(r['targets'])} | {res} |")
print("\n#### Seeded changes (seeded/<name>/meta.json)\n")
print("| change | property | what it does / what it needs | caught by (quick tier) |")
print("|---|---|---|---|")
for d in sorted([d for d in glob.glob("/verif/seeded/C*") if os.path.isdir(d)]):
    m = json.load(open(os.path.join(d, "meta.json")))
    caught = ", ".join(m["detected_by"]) or "— (missed)"
    prim = "yes" if m.get("detected_by_primary_check") else "NO"
    clip = lambda t, n: (t if len(t) <= n else t[:n].rsplit(" ", 1)[0] + " …").replace("|", "/").replace("\n", " ")
    note = " (see note in meta.json)" if m.get("note") else ""
    print(f"| {os.path.basename(d)} | {m['property']} | {clip(m['summary'] or '', 230)} — **needs:** {clip(m['needs'] or '', 200)} | {caught} (primary: {prim}){note} |")
