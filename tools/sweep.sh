#!/bin/bash
# Silence sweep: every check at several seeds; evidence redirected so that /verif/evidence stays untouched.
# usage: tools/sweep.sh <tier> <seed> [<seed> …]     (prints one line per check and seed; exit 1 if any run is not silent)
cd "$(dirname "$0")/.." || exit 2
tier="$1"; shift
bad=0
for seed in "$@"; do
  for p in C01 C02 C03 C04 C05 C06 C07 C08 C09 C10 C11 C12 C13 C14 C15 C16 C17 C18 C19; do
    out=$(VERIF_SEED=$seed VERIF_EVIDENCE_DIR=/tmp/sweep-evidence-$$ ./check.sh $p $tier 2>&1); rc=$?
    line=$(echo "$out" | grep -E "^$p tier" | head -1)
    echo "seed=$seed $p exit=$rc $line"
    if [ $rc -ne 0 ]; then bad=1; echo "$out" | grep -E "VIOLATION|INCONCLUSIVE|what:|BUILD" | head -5; fi
  done
done
rm -rf /tmp/sweep-evidence-$$
exit $bad
