#!/usr/bin/env python3
"""Confirms a seeded change delivered by a sub-agent and runs the checks against it.
usage: seedcheck.py <name> <srcdir> [check ids…]      (srcdir holds patch.diff, seed_demo_test.go, meta.json)
Works on scratch copies of /repo outside /repo and /verif; /repo itself is never modified.
Keeps /verif/seeded/<name>/ only if the change is confirmed (compiles, existing tests pass, demo fails with
it and passes without it)."""
import json, os, re, shutil, subprocess, sys

ENV = dict(os.environ, GOFLAGS="-mod=mod", GOPROXY="off", GOSUMDB="off", GOTOOLCHAIN="local")
ALL = ["C%02d" % i for i in range(1, 20)]

def sh(cmd, cwd=None, env=ENV, timeout=7200):
    p = subprocess.run(cmd, shell=True, cwd=cwd, env=env, stdout=subprocess.PIPE, stderr=subprocess.STDOUT, timeout=timeout)
    return p.returncode, p.stdout.decode(errors="replace")

def main():
    name, src = sys.argv[1], sys.argv[2]
    checks = sys.argv[3:] or ALL
    meta = json.load(open(os.path.join(src, "meta.json")))
    prop = meta.get("property", name[:3])
    root = f"/tmp/seedcheck-{name}"
    shutil.rmtree(root, ignore_errors=True)
    os.makedirs(root)
    clean, patched = os.path.join(root, "clean"), os.path.join(root, "patched")
    try:
        for d in (clean, patched):
            sh(f"rsync -a --exclude .git /repo/ {d}/")
        rc, out = sh(f"patch -p1 < {src}/patch.diff", cwd=patched)
        if rc != 0:
            print("PATCH DOES NOT APPLY", out[-500:]); return 1
        ran = []
        rc, out = sh("go build ./... && go test -vet=off -count=1 ./...", cwd=patched)
        ran.append("patched copy: go build ./... && go test -vet=off -count=1 ./...  -> " + ("ok" if rc == 0 else "FAIL"))
        if rc != 0:
            print("EXISTING TESTS FAIL WITH THE CHANGE", out[-800:]); return 1
        for d in (clean, patched):
            shutil.copy(os.path.join(src, "seed_demo_test.go"), d)
        rc1, out1 = sh("go test -vet=off -count=1 -run 'TestSeedDemo' .", cwd=patched)
        rc0, out0 = sh("go test -vet=off -count=1 -run 'TestSeedDemo' .", cwd=clean)
        ran.append(f"patched copy + demo: go test -run TestSeedDemo -> {'FAIL (as required)' if rc1 != 0 else 'passes (NOT a demonstration)'}")
        ran.append(f"clean copy + demo:   go test -run TestSeedDemo -> {'ok (as required)' if rc0 == 0 else 'FAILS (demo is wrong)'}")
        if rc1 == 0 or rc0 != 0:
            print("DEMONSTRATION NOT CONFIRMED"); print(out1[-600:]); print(out0[-600:]); return 1
        # the race detector may be needed for the demo (schedules); also record it
        os.remove(os.path.join(patched, "seed_demo_test.go"))
        # run the checks from a snapshot of the COMMITTED /verif (edits in progress do not disturb the run)
        snap = os.path.join(root, "verif")
        os.makedirs(snap)
        sh(f"git -C /verif archive HEAD | tar -x -C {snap}")
        env = dict(ENV, VERIF_REPO=patched, VERIF_EVIDENCE_DIR=os.path.join(root, "evidence"), VERIF_BIN_DIR=os.path.join(root, "bin"))
        results = {}
        for c in checks:
            rc, out = sh(f"{snap}/check.sh {c} quick", env=env)
            results[c] = {"exit": rc, "violation": f"VIOLATION property={c}" in out, "what": re.findall(r"what: \[([^\]]+)\] ([^\n]{0,160})", out)[:3],
                          "inconclusive": [l[:200] for l in out.splitlines() if l.startswith("INCONCLUSIVE")][:2]}
            print(c, "VIOLATION" if results[c]["violation"] else ("inconclusive" if rc == 2 else "silent"), results[c]["what"][:1], flush=True)
        ran.append("checks: VERIF_REPO=<patched scratch copy of /repo> /verif/check.sh <id> quick  for " + " ".join(checks))
        dst = f"/verif/seeded/{name}"
        os.makedirs(dst, exist_ok=True)
        shutil.copy(os.path.join(src, "patch.diff"), dst)
        shutil.copy(os.path.join(src, "seed_demo_test.go"), os.path.join(dst, "seed_demo_test.go.txt"))
        caught = sorted(c for c, r in results.items() if r["violation"])
        out_meta = {
            "property": prop, "summary": meta.get("summary"), "needs": meta.get("needs"),
            "author": "independent sub-agent given only the property text and a scratch worktree",
            "confirmed": ran,
            "detected_by_primary_check": results.get(prop, {}).get("violation"),
            "detected_by": caught,
            "check_results": results,
        }
        json.dump(out_meta, open(os.path.join(dst, "meta.json"), "w"), indent=1)
        print("SEED", name, "primary", prop, "caught_by", caught)
        return 0
    finally:
        shutil.rmtree(root, ignore_errors=True)

if __name__ == "__main__":
    sys.exit(main())
