#!/bin/bash
# Offline build of the harness (plain and race binaries) against /repo; warms the go build cache.
cd "$(dirname "$0")" && exec ./check.sh build
